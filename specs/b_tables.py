"""Bounded native contracts (history-level small-scope checks) for the table properties
C01, C02, C07, C08, C10 (table part) and C17 of jdum/odfdo.

Oracles (all independent of the odfdo table API that is being checked):
  * a reference model `Grid`: an uncompressed Python list of rows (each a list of cell values, None = empty)
    plus a list of column slots (the style name of each declared column).  Every operation of the alphabet
    is re-stated on it directly from the property statement (an operation addressed to one row / one cell
    changes that row / cell only; a column insertion / deletion shifts every row alike; a set beyond the
    edge pads with empty cells / rows).  It never mentions maps, runs or repeats.
  * a raw-lxml reader (`Raw`, on top of pyvc.xmlnative.item_elements / rep_of / attr_ok / payload) that
    expands the run-length encoded XML of the live table by itself and decodes the cell values by itself.

Contracts (all `bounded`, never counted as proved):
  odfdo.table:Table[history<=1]        C01 C02 C07   every single operation of the full alphabet on every initial table
  odfdo.table:Table[history==2]        C01 C02 C07   every pair of the reduced alphabet, with and without interleaved reads
  odfdo.table:_table_name_check        C07           table-name acceptance
  odfdo.table:NamedRange.name          C07           named-range name acceptance
  odfdo.table:Table[getters]           C08           coordinates / no repeat / detached copies / reads outside the area
  odfdo.table:Table[clone]             C10           Cell / Row / Column / Table clones: equal at birth, independent afterwards
  odfdo.table:Table[transform]         C17           transpose, rstrip, optimize_width, set_span / del_span laws

Clause labels are `<kind>-<operation>[-<input class>][-cached]`: kind = grid (C01: live answers == reference
grid), fresh (C02: live answers == fresh parse == raw expansion), xml (C07: structure read with raw lxml).
The input class is computed *before* the call from the raw XML / the object state, never from the result:
  overlap  the call sets an item carrying a repeat count k >= 2 that reaches beyond the run it starts in
  rowrun   the call addresses one row (or one cell of it) that is stored inside a repeated row run
  ragged   a column operation on a table having a row narrower than the declared columns
  cached   the table's row cache (`_indexes["_tmap"]`) is populated when the call is made
so that a known defect confined to one class does not mask the same operation on the other classes.
A history is blamed on the last operation of its shortest failing prefix; without interleaved reads the prefixes are
replayed on instances of their own so that the history itself stays free of reads (the checks are reads and would
populate the caches).  Histories of length 2 read the first and last column only (all rows, all single values).
`<kind>-initial` = the initial table itself fails the check; `no-crash` = an exception escaped the harness.
At most B_TABLES_MAXFAIL (default 5) failure records are emitted per contract and label; further occurrences of the
same label are only noted in NativeResult.outcome (the known defects fail on thousands of histories).

Genuine defects of the pinned tree are listed in FINDINGS (one entry per root cause, smallest history, witness).

Self-test with tools/mutrun.py (whole module run against a scratch tree with one edit).  Every mutant below is
flagged by labels that pass on the unchanged tree (number of such new labels in brackets); none of those tried
was missed.
kills:
  element_cached.py  find_odf_idx: bisect_left -> bisect_right (import aliased)                [79: grid-/fresh- of nearly every operation]
  element_cached.py  delete_item_in_vault map update `(x - 1) for x in vault_map[odf_idx:]` -> `x`   [31: grid-/fresh-/xml-delete_row, delete_cell, delete_column ...]
  element_cached.py  set_item_in_vault: `target_idx += 1` dropped                              [52: grid-set_value(-rowrun), set_cell, insert_cell ...]
  element_cached.py  set_item_in_vault: `repeated_after = current_repeated - repeated_before` (no `- repeated`)   [64]
  element_cached.py  set_item_in_vault: `vault._indexes[vault_map_name] = {}` dropped          [118: grid-/fresh-insert_cell, append_cell, rappend_cell ...]
  table.py           set_row: `self._update_width(row_back)` removed                           [74: grid-/xml-set_row, rappend_cell, rinsert_cell, rset_cell, rset_values ...]
  table.py           insert_row: `if diff < 0:` -> `if diff <= 0:`                             [4: grid-insert_row (raises at the edge), clone: equal-Table.clone]
  table.py           insert_row: `self._update_width(row_back)` removed                        [7: grid-/xml-insert_row]
  table.py           append_row: column initialisation appended instead of `position=0`        [30: xml-* 'a column declaration follows a row']
  table.py           get_row: default `clone=True` -> False                                    [29: grid-rset_cell-rowrun, rappend_cell-rowrun ..., getters: detached-get_row]
  table.py           rstrip: `diff = -repeated` -> `diff = repeated`                           [2: transform rstrip(-aggressive)-only-empty (column declarations)]
  table.py           set_span: first covered cell not retagged (`cells[0][2:]`)                [1: transform span-covers-area]
  table.py           optimize_width: `_optimize_width_rstrip_rows(width)` removed              [1: transform coherent-after-optimize_width]
  row.py             extend_cells: `self._compute_row_cache()` dropped                         [9: grid-/xml-set_values, rset_values; transform transpose-once, coherent-after-transpose, coherent-after-set_span]
  row.py             clone: `clone._rmap = self._rmap[:]` -> `self._rmap`                      [5: clone indep-Row.clone; getters detached-get_row; grid-set_column_cells]
  row.py             traverse (no range): `cell = cell.clone` removed                          [85: history grid-/fresh- of most operations; getters detached-Row.traverse, detached-Row.cells, detached-cells, detached-get_cells ...]
  row.py             traverse (range): `cell.x = x` after `x += 1`                             [3: getters coords-Row.traverse-range, coords-Row.get_cells-range, coords-get_cells-area]
  row.py             rstrip: `break` -> `continue`                                             [2: transform rstrip(-aggressive)-keeps-values]
  cell.py            _set_repeated: `repeated < 2` -> `repeated < 1`                           [70: xml-* 'cell repeat attribute 1']
"""
from __future__ import annotations

import itertools
import os
import random
from decimal import Decimal

from lxml import etree

from pyvc.native import NativeResult
from pyvc.spec import Clause, Opaque, Str, contract
from pyvc.xmlnative import REP_ATTR, TABLE_NS, attr_ok, item_elements, lx, payload, rep_of

OFFICE_NS = "{urn:oasis:names:tc:opendocument:xmlns:office:1.0}"
TEXT_NS = "{urn:oasis:names:tc:opendocument:xmlns:text:1.0}"
CELL_TAG = TABLE_NS + "table-cell"
COVERED_TAG = TABLE_NS + "covered-table-cell"
ROW_TAG = TABLE_NS + "table-row"
COL_TAG = TABLE_NS + "table-column"
STYLE_ATTR = TABLE_NS + "style-name"
COLSPAN = TABLE_NS + "number-columns-spanned"
ROWSPAN = TABLE_NS + "number-rows-spanned"

# at most this many failure records per label and per process (the known defects of the pinned tree fail on
# thousands of histories; further occurrences are only counted in NativeResult.outcome)
MAXFAIL = int(os.environ.get("B_TABLES_MAXFAIL", "5"))
_REPORTED: dict = {}
_CURRENT = [None]       # target of the contract being evaluated (the cap is per contract and label)


def _new_pass(con):
    """a new enumeration of a contract starts: its failure caps start again"""
    for k in [k for k in _REPORTED if k[0] == con.target]:
        del _REPORTED[k]


def _report(res, label, detail):
    key = (_CURRENT[0], label)
    n = _REPORTED.get(key, 0)
    _REPORTED[key] = n + 1
    if n < MAXFAIL:
        res.failures.append((label, detail))
    else:
        res.outcome = (res.outcome or "") + f" [{label} failed again: {detail[:80]}]"


# ===================================================================== independent raw reader
def raw_value(el):
    """python value of a cell node, decoded without odfdo"""
    vt = el.get(OFFICE_NS + "value-type")
    if vt is None:
        return None
    if vt in ("float", "percentage", "currency"):
        d = Decimal(el.get(OFFICE_NS + "value"))
        return int(d) if d == int(d) else d
    if vt == "string":
        sv = el.get(OFFICE_NS + "string-value")
        if sv is not None:
            return sv
        return "\n".join("".join(p.itertext()) for p in el if p.tag == TEXT_NS + "p")
    if vt == "boolean":
        return el.get(OFFICE_NS + "boolean-value") == "true"
    if vt == "date":
        from datetime import datetime
        return datetime.fromisoformat(el.get(OFFICE_NS + "date-value"))
    return ("undecoded", vt)


class Raw:
    """expansion of the run-length encoded XML of a table (or a row) read with lxml only"""

    def __init__(self, table):
        el = table if isinstance(table, etree._Element) else lx(table)
        self.el = el
        self.col_runs = [(c.get(STYLE_ATTR), rep_of(c, "cols")) for c in item_elements(el, "cols")]
        self.row_runs = []  # (repeat, [(repeat, cell node)])
        for r in item_elements(el, "rows"):
            self.row_runs.append((rep_of(r, "rows"), [(rep_of(c, "cells"), c) for c in item_elements(r, "cells")]))
        self.cols = [s for s, k in self.col_runs for _ in range(k)]
        self.rows = []  # expanded: list of lists of cell nodes
        for k, cells in self.row_runs:
            line = [c for ck, c in cells for _ in range(ck)]
            for _ in range(k):
                self.rows.append(line)
        self.W = len(self.cols)
        self.H = len(self.rows)

    def widths(self):
        return [len(r) for r in self.rows]

    def values(self):
        """physical rows of decoded values"""
        return [[raw_value(c) for c in r] for r in self.rows]

    def matrix(self):
        return [_pad([raw_value(c) for c in r], self.W) for r in self.rows]

    def payloads(self):
        return [[payload(c, "cells") for c in r] for r in self.rows]

    def row_run_of(self, y):
        """(first, last, cell runs) of the row run containing position y, or None"""
        pos = 0
        for k, cells in self.row_runs:
            if pos <= y < pos + k:
                return pos, pos + k - 1, cells
            pos += k
        return None

    @staticmethod
    def cell_run_of(cells, x):
        pos = 0
        for k, _c in cells:
            if pos <= x < pos + k:
                return pos, pos + k - 1
            pos += k
        return None


def _pad(row, w):
    return list(row) + [None] * (w - len(row))


def xml_structure(table, first_row_added=False):
    """C07 structural rules read with raw lxml; returns the list of violated rules"""
    el = lx(table)
    bad = []
    seen_row = False
    ncols = 0
    nrows = 0
    for ch in el:
        if ch.tag == COL_TAG:
            if seen_row:
                bad.append("a column declaration follows a row")
            if not attr_ok(ch, "cols"):
                bad.append(f"column repeat attribute {ch.get(REP_ATTR['cols'])!r}")
            ncols += rep_of(ch, "cols")
        elif ch.tag == ROW_TAG:
            seen_row = True
    for r in item_elements(el, "rows"):
        if not attr_ok(r, "rows"):
            bad.append(f"row repeat attribute {r.get(REP_ATTR['rows'])!r}")
        nrows += rep_of(r, "rows")
        w = 0
        for c in r:
            if c.tag not in (CELL_TAG, COVERED_TAG):
                bad.append(f"row child {c.tag}")
                continue
            if not attr_ok(c, "cells"):
                bad.append(f"cell repeat attribute {c.get(REP_ATTR['cells'])!r}")
            w += rep_of(c, "cells")
        if w > ncols:
            bad.append(f"row of {w} cells wider than the {ncols} declared columns")
    if first_row_added and nrows and not ncols:
        bad.append("the first row was added but no column is declared")
    try:
        if table.height != nrows:
            bad.append(f"height reported {table.height} != sum of row repeats {nrows}")
        if table.width != ncols:
            bad.append(f"width reported {table.width} != sum of column repeats {ncols}")
    except Exception as e:  # noqa
        bad.append(f"size raised {e!r}")
    return bad


# ===================================================================== reference model
class Grid:
    """uncompressed list-of-lists grid + column slots; rows keep their own length, reads pad with None"""

    def __init__(self, rows=(), cols=()):
        self.rows = [list(r) for r in rows]
        self.cols = list(cols)

    def copy(self):
        return Grid(self.rows, self.cols)

    @property
    def W(self):
        return len(self.cols)

    @property
    def H(self):
        return len(self.rows)

    # ---- reads
    def value(self, x, y):
        if 0 <= y < self.H and 0 <= x < len(self.rows[y]):
            return self.rows[y][x]
        return None

    def row_values(self, y):
        return _pad(self.rows[y], self.W)

    def matrix(self):
        return [self.row_values(y) for y in range(self.H)]

    # ---- helpers
    def _fit(self, row):
        """the table is at least as wide as each row that was written"""
        if len(row) > self.W:
            self.cols.extend([None] * (len(row) - self.W))

    def _row(self, y):
        """row y for an operation addressed to it; rows between the edge and y are created empty.
        The first row ever added to a table without columns declares them (a table with a row has
        at least one column)."""
        declare = not self.cols and y >= self.H
        while self.H <= y:
            self.rows.append([])
        return self.rows[y], declare

    def _done(self, row, declare):
        if declare and not self.cols:
            self.cols = [None] * max(1, len(row))
        self._fit(row)

    @staticmethod
    def _rset(row, x, v, k=1):
        while len(row) < x:
            row.append(None)
        for i in range(k):
            if x + i < len(row):
                row[x + i] = v
            else:
                row.append(v)

    @staticmethod
    def _rinsert(row, x, v, k=1):
        while len(row) < x:
            row.append(None)
        row[x:x] = [v] * k

    # ---- cell level (table API)
    def set_cell(self, x, y, v, k=1):
        row, d = self._row(y)
        self._rset(row, x, v, k)
        self._done(row, d)

    def insert_cell(self, x, y, v, k=1):
        row, d = self._row(y)
        self._rinsert(row, x, v, k)
        self._done(row, d)

    def append_cell(self, y, v, k=1):
        row, d = self._row(y)
        row.extend([v] * k)
        self._done(row, d)

    def delete_cell(self, x, y):
        if y < self.H and x < len(self.rows[y]):
            del self.rows[y][x]

    # ---- row level
    def set_row(self, y, content, k=1):
        declare = not self.cols and y >= self.H
        while self.H < y:
            self.rows.append([])
        for i in range(k):
            if y + i < self.H:
                self.rows[y + i] = list(content)
            else:
                self.rows.append(list(content))
        self._done(content, declare)

    def insert_row(self, y, content, k=1):
        declare = not self.cols and y >= self.H
        while self.H < y:
            self.rows.append([])
        self.rows[y:y] = [list(content) for _ in range(k)]
        self._done(content, declare)

    def append_row(self, content, k=1):
        self.insert_row(self.H, content, k)

    def delete_row(self, y):
        if y < self.H:
            del self.rows[y]

    # ---- column level: every row alike
    def insert_column(self, x, style, k=1):
        while self.W < x:
            self.cols.append(None)
        self.cols[x:x] = [style] * k
        for row in self.rows:
            if len(row) > x:
                row[x:x] = [None] * k

    def append_column(self, style, k=1):
        self.cols.extend([style] * k)

    def delete_column(self, x):
        if x < self.W:
            del self.cols[x]
            for row in self.rows:
                if len(row) > x:
                    del row[x]

    def set_column_cells(self, x, vals):
        for y, v in enumerate(vals):
            self.set_cell(x, y, v)

    def set_values(self, block, x, y):
        for i, vals in enumerate(block):
            if not vals:
                continue
            row, d = self._row(y + i)
            for j, v in enumerate(vals):
                self._rset(row, x + j, v)
            self._done(row, d)

    @classmethod
    def from_raw(cls, raw):
        return cls(raw.values(), raw.cols)


# ===================================================================== initial tables
def _cell_xml(v, k=1, style=None, tag="table-cell"):
    a = ""
    if style:
        a += f' table:style-name="{style}"'
    if k > 1:
        a += f' table:number-columns-repeated="{k}"'
    if v is None:
        return f"<table:{tag}{a}/>"
    if isinstance(v, str):
        return (f'<table:{tag}{a} office:value-type="string" office:string-value="{v}">'
                f"<text:p>{v}</text:p></table:{tag}>")
    return f'<table:{tag}{a} office:value-type="float" office:value="{v}"><text:p>{v}</text:p></table:{tag}>'


def table_xml(cols, rows):
    """cols: [(style or None, repeat)]; rows: [(repeat, [(value, repeat) or (value, repeat, style)])]"""
    out = ['<table:table table:name="t">']
    for s, k in cols:
        a = f' table:style-name="{s}"' if s else ""
        if k > 1:
            a += f' table:number-columns-repeated="{k}"'
        out.append(f"<table:table-column{a}/>")
    for k, cells in rows:
        a = f' table:number-rows-repeated="{k}"' if k > 1 else ""
        out.append(f"<table:table-row{a}>")
        for c in cells:
            out.append(_cell_xml(c[0], c[1], c[2] if len(c) > 2 else None))
        out.append("</table:table-row>")
    out.append("</table:table>")
    return "".join(out)


def shape_model(cols, rows):
    g = Grid()
    g.cols = [s for s, k in cols for _ in range(k)]
    for k, cells in rows:
        line = [c[0] for c in cells for _ in range(c[1])]
        for _ in range(k):
            g.rows.append(list(line))
    return g


XML_SHAPES = {
    # 3x3, a row run of 2, two column runs
    "x-rowrun": ([("ca", 2), ("cb", 1)], [(2, [(1, 2), (None, 1)]), (1, [(2, 1), (3, 2)])]),
    # ragged: rows of 1, 4, 3 cells under 4 columns, row run of 3 in the middle
    "x-ragged": ([(None, 4)], [(1, [(1, 1)]), (3, [(2, 3), (None, 1)]), (1, [(None, 2), (4, 1)])]),
    # one row of three cell runs (1,3,1) under 6 columns in four runs
    "x-cellruns": ([("ca", 1), ("cb", 3), ("cc", 1), (None, 1)], [(1, [(1, 1), (2, 3), (3, 1)])]),
    # three row runs (1,2,3) of one cell run of 3
    "x-rowruns3": ([(None, 3)], [(1, [(1, 3)]), (2, [(2, 3)]), (3, [(3, 3)])]),
    # five single rows, single cells (no run at all)
    "x-plain": ([("ca", 1), ("cb", 1)], [(1, [(10 + i, 1), (20 + i, 1)]) for i in range(5)]),
}

_ODS_CACHE: dict = {}


def _ods_tables():
    if not _ODS_CACHE:
        from odfdo import Document
        repo = os.environ.get("PYVC_REPO", "/repo")
        path = os.path.join(repo, "tests", "samples", "simple_table.ods")
        if not os.path.exists(path):
            path = "/repo/tests/samples/simple_table.ods"
        doc = Document(path)
        tables = doc.body.get_tables()
        _ODS_CACHE["ods-Example1"] = tables[0].serialize(with_ns=True)
        _ODS_CACHE["ods-Example3"] = tables[2].serialize(with_ns=True)
    return _ODS_CACHE


def random_shape(rnd):
    """<= 3 row runs x <= 3 cell runs, repeats 1..3, some rows narrower than the columns"""
    nrr = rnd.randint(1, 3)
    rows = []
    val = 1
    for _ in range(nrr):
        ncr = rnd.randint(1, 3)
        cells = []
        for _ in range(ncr):
            v = rnd.choice([None, val, val, "s%d" % val])
            val += 1
            cells.append((v, rnd.randint(1, 3)))
        rows.append((rnd.randint(1, 3), cells))
    w = max(sum(k for _v, k in cells) for _k, cells in rows) + rnd.choice([0, 0, 1])
    cols = []
    left = w
    i = 0
    while left > 0:
        k = min(left, rnd.randint(1, 3))
        cols.append((rnd.choice([None, "c%d" % i]), k))
        left -= k
        i += 1
    return cols, rows


QUICK_INITS = ["empty", "new-2x2", "new-3x1", "x-rowrun", "x-ragged", "x-cellruns", "x-rowruns3", "x-plain",
               "ods-Example1", "ods-Example3"]


def build_init(key):
    """fresh (live table, reference grid) for an initial-table key"""
    from odfdo import Element, Table
    if key == "empty":
        return Table("t"), Grid()
    if key.startswith("new-"):
        w, h = (int(n) for n in key[4:].split("x"))
        return Table("t", width=w, height=h), Grid([[None] * w for _ in range(h)], [None] * w)
    if key in XML_SHAPES:
        cols, rows = XML_SHAPES[key]
        return Element.from_tag(table_xml(cols, rows)), shape_model(cols, rows)
    if key.startswith("ods-"):
        t = Element.from_tag(_ods_tables()[key])
        return t, Grid.from_raw(Raw(t))
    if key.startswith("rnd-"):
        cols, rows = random_shape(random.Random(int(key[4:])))
        return Element.from_tag(table_xml(cols, rows)), shape_model(cols, rows)
    raise KeyError(key)


# ===================================================================== the operation alphabet
# An operation is a tuple (name, args...).  Coordinates are ints or ("e", d) = size at the time of the call + d
# (d = -1 the last one, 0 at the edge, > 0 beyond the edge); they are resolved against the reference grid.
ROW_CONTENTS = {"R0": [], "R1": [(1, 1)], "R3": [(2, 2), (3, 1)]}   # cell runs (value offset, repeat)


def _res(c, size):
    if isinstance(c, tuple):
        return max(0, size + c[1])
    return c


def resolve(op, g):
    """concrete operation (ints only) for the current sizes of the reference grid"""
    n = op[0]
    W, H = g.W, g.H
    if n in ("set_value",):
        return (n, _res(op[1], W), _res(op[2], H), op[3])
    if n in ("set_cell", "insert_cell"):
        return (n, _res(op[1], W), _res(op[2], H), op[3], op[4])
    if n == "append_cell":
        return (n, _res(op[1], H), op[2], op[3])
    if n == "delete_cell":
        return (n, _res(op[1], W), _res(op[2], H))
    if n in ("set_row", "insert_row"):
        return (n, _res(op[1], H), op[2], op[3], op[4])
    if n == "append_row":
        return op
    if n in ("delete_row", "live_row_repeated"):
        return (n, _res(op[1], H)) + tuple(op[2:])
    if n == "insert_column":
        return (n, _res(op[1], W), op[2], op[3])
    if n == "append_column":
        return op
    if n == "delete_column":
        return (n, _res(op[1], W))
    if n == "set_column_cells":
        return (n, _res(op[1], W), op[2])
    if n in ("set_values", "set_cells"):
        return (n, op[1], _res(op[2], W), _res(op[3], H))
    if n in ("set_row_values", "set_row_cells"):
        return (n, _res(op[1], H), op[2])
    if n == "set_column_values":
        return (n, _res(op[1], W), op[2])
    if n in ("extend_rows", "clear"):
        return op
    if n in ("rset_cell", "rinsert_cell"):
        y = _res(op[1], H)
        rw = len(g.rows[y]) if y < H else 0
        return (n, y, _res(op[2], rw), op[3], op[4])
    if n == "rappend_cell":
        return (n, _res(op[1], H), op[2], op[3])
    if n == "rdelete_cell":
        y = _res(op[1], H)
        rw = len(g.rows[y]) if y < H else 0
        return (n, y, _res(op[2], rw))
    if n == "rset_values":
        y = _res(op[1], H)
        rw = len(g.rows[y]) if y < H else 0
        return (n, y, op[2], _res(op[3], rw))
    raise KeyError(n)


def _content(name, v):
    return [(v + off, k) for off, k in ROW_CONTENTS[name]]


def _mk_row(name, v, k):
    from odfdo import Cell, Row
    r = Row(repeated=k) if k > 1 else Row()
    for val, rep in _content(name, v):
        r.append_cell(Cell(val, repeated=rep) if rep > 1 else Cell(val))
    return r


def _flat(name, v):
    return [val for val, rep in _content(name, v) for _ in range(rep)]


def _mk_cell(v, k):
    from odfdo import Cell
    return Cell(v, repeated=k) if k > 1 else Cell(v)


def _block(spec, v):
    """value blocks of Table.set_values"""
    if spec == "1x1":
        return [[v]]
    if spec == "2x2":
        return [[v, v + 1], [v + 2, v + 3]]
    if spec == "1x3":
        return [[v, None, v + 1]]
    if spec == "gap":
        return [[v], [], [v + 1, v + 2]]
    raise KeyError(spec)


def apply_real(t, op):
    """the concrete operation on the real odfdo table (public Table / Row API only)"""
    from odfdo import Cell, Column
    n = op[0]
    if n == "set_value":
        t.set_value((op[1], op[2]), op[3])
    elif n == "set_cell":
        t.set_cell((op[1], op[2]), _mk_cell(op[3], op[4]))
    elif n == "insert_cell":
        t.insert_cell((op[1], op[2]), _mk_cell(op[3], op[4]))
    elif n == "append_cell":
        t.append_cell(op[1], _mk_cell(op[2], op[3]))
    elif n == "delete_cell":
        t.delete_cell((op[1], op[2]))
    elif n == "set_row":
        t.set_row(op[1], _mk_row(op[2], op[3], op[4]))
    elif n == "insert_row":
        t.insert_row(op[1], _mk_row(op[2], op[3], op[4]))
    elif n == "append_row":
        t.append_row(_mk_row(op[1], op[2], op[3]))
    elif n == "delete_row":
        t.delete_row(op[1])
    elif n == "insert_column":
        t.insert_column(op[1], Column(style=op[2], repeated=op[3]))
    elif n == "append_column":
        t.append_column(Column(style=op[1], repeated=op[2]))
    elif n == "delete_column":
        t.delete_column(op[1])
    elif n == "set_column_cells":
        t.set_column_cells(op[1], [Cell(op[2] + i) for i in range(t.height)])
    elif n == "set_values":
        t.set_values(_block(op[1], _BLOCK_BASE), coord=(op[2], op[3]))
    elif n == "set_cells":
        t.set_cells([[Cell(v) for v in line] for line in _block(op[1], _BLOCK_BASE)], coord=(op[2], op[3]))
    elif n == "set_row_values":
        t.set_row_values(op[1], _flat(op[2], _BLOCK_BASE))
    elif n == "set_row_cells":
        t.set_row_cells(op[1], [_mk_cell(val, rep) for val, rep in _content(op[2], _BLOCK_BASE)])
    elif n == "set_column_values":
        t.set_column_values(op[1], [op[2] + i for i in range(t.height)])
    elif n == "extend_rows":
        t.extend_rows([_mk_row(op[1], op[2], op[3]), _mk_row("R1", op[2] + 5, 1)])
    elif n == "clear":
        t.clear()
    elif n == "live_row_repeated":
        t.get_row(op[1], clone=False).repeated = op[2]
    elif n[0] == "r":
        y = op[1]
        r = t.get_row(y)          # a copy (an empty row beyond the edge)
        r.repeated = None         # the copy of a row of a repeated run still carries the run's count
        if n == "rset_cell":
            r.set_cell(op[2], _mk_cell(op[3], op[4]))
        elif n == "rinsert_cell":
            r.insert_cell(op[2], _mk_cell(op[3], op[4]))
        elif n == "rappend_cell":
            r.append_cell(_mk_cell(op[2], op[3]))
        elif n == "rdelete_cell":
            r.delete_cell(op[2])
        elif n == "rset_values":
            r.set_values(_flat(op[2], _BLOCK_BASE), start=op[3])
        else:
            raise KeyError(n)
        t.set_row(y, r)
    else:
        raise KeyError(n)


_BLOCK_BASE = 700


def apply_model(g, op):
    n = op[0]
    if n == "set_value":
        g.set_cell(op[1], op[2], op[3])
    elif n == "set_cell":
        g.set_cell(op[1], op[2], op[3], op[4])
    elif n == "insert_cell":
        g.insert_cell(op[1], op[2], op[3], op[4])
    elif n == "append_cell":
        g.append_cell(op[1], op[2], op[3])
    elif n == "delete_cell":
        g.delete_cell(op[1], op[2])
    elif n == "set_row":
        g.set_row(op[1], _flat(op[2], op[3]), op[4])
    elif n == "insert_row":
        g.insert_row(op[1], _flat(op[2], op[3]), op[4])
    elif n == "append_row":
        g.append_row(_flat(op[1], op[2]), op[3])
    elif n == "delete_row":
        g.delete_row(op[1])
    elif n == "insert_column":
        g.insert_column(op[1], op[2], op[3])
    elif n == "append_column":
        g.append_column(op[1], op[2])
    elif n == "delete_column":
        g.delete_column(op[1])
    elif n == "set_column_cells":
        g.set_column_cells(op[1], [op[2] + i for i in range(g.H)])
    elif n in ("set_values", "set_cells"):
        g.set_values(_block(op[1], _BLOCK_BASE), op[2], op[3])
    elif n in ("set_row_values", "set_row_cells"):
        g.set_row(op[1], _flat(op[2], _BLOCK_BASE), 1)
    elif n == "set_column_values":
        g.set_column_cells(op[1], [op[2] + i for i in range(g.H)])
    elif n == "extend_rows":
        g.append_row(_flat(op[1], op[2]), op[3])
        g.append_row(_flat("R1", op[2] + 5), 1)
    elif n == "clear":
        g.rows[:] = []
        g.cols[:] = []
    elif n[0] == "r":
        y = op[1]
        row = list(g.rows[y]) if y < g.H else []
        if n == "rset_cell":
            Grid._rset(row, op[2], op[3], op[4])
        elif n == "rinsert_cell":
            Grid._rinsert(row, op[2], op[3], op[4])
        elif n == "rappend_cell":
            row.extend([op[2]] * op[3])
        elif n == "rdelete_cell":
            if op[2] < len(row):
                del row[op[2]]
        elif n == "rset_values":
            for j, v in enumerate(_flat(op[2], _BLOCK_BASE)):
                Grid._rset(row, op[3] + j, v)
        g.set_row(y, row, 1)
    else:
        raise KeyError(n)


OPS = ["set_value", "set_cell", "insert_cell", "append_cell", "delete_cell", "set_row", "insert_row", "append_row",
       "delete_row", "insert_column", "append_column", "delete_column", "set_column_cells", "set_values",
       "set_cells", "set_row_values", "set_row_cells", "set_column_values", "extend_rows", "clear",
       "rset_cell", "rinsert_cell", "rappend_cell", "rdelete_cell", "rset_values", "live_row_repeated"]
ROW_ADDRESSED = {"set_value", "set_cell", "insert_cell", "append_cell", "delete_cell",
                 "rset_cell", "rinsert_cell", "rappend_cell", "rdelete_cell", "rset_values", "live_row_repeated"}
COLUMN_OPS = {"insert_column", "append_column", "delete_column"}
CLASSES = {}
for _n in OPS:
    cl = [""]
    if _n in ("set_cell", "rset_cell", "set_row"):
        cl.append("-overlap")
    if _n in ROW_ADDRESSED:
        cl.append("-rowrun")
    if _n in COLUMN_OPS:
        cl.append("-ragged")
    CLASSES[_n] = cl


def input_class(t, op):
    """class of the call, from the raw XML and the cache state *before* the call"""
    n = op[0]
    raw = Raw(t)
    cls = ""
    if n in ("set_cell", "rset_cell") and op[4] >= 2:
        x, y = (op[1], op[2]) if n == "set_cell" else (op[2], op[1])
        rr = raw.row_run_of(y)
        if rr is not None:
            cr = Raw.cell_run_of(rr[2], x)
            if cr is not None and x + op[4] - 1 > cr[1]:
                cls = "-overlap"
    elif n == "set_row" and op[4] >= 2:
        rr = raw.row_run_of(op[1])
        if rr is not None and op[1] + op[4] - 1 > rr[1]:
            cls = "-overlap"
    if not cls and n in ROW_ADDRESSED:
        y = op[2] if n in ("set_value", "set_cell", "insert_cell", "delete_cell") else op[1]
        rr = raw.row_run_of(y)
        if rr is not None and rr[1] > rr[0]:
            cls = "-rowrun"
    if n in COLUMN_OPS and any(w < raw.W for w in raw.widths()):
        cls = "-ragged"
    cached = "-cached" if t._indexes.get("_tmap") else ""
    return cls + cached


# ===================================================================== the checks after a step
def _col_sample(W, light):
    return range(W) if not light else sorted({0, W - 1} & set(range(W)))


def live_answers(t, light=False):
    """every read of C01 on a table object: size, single values (one beyond each edge too), rows, columns
    (light: the first and the last one only), an area, the full matrix, the column slots"""
    W, H = t.size
    a = {"size": (W, H)}
    a["width/height"] = (t.width, t.height)
    a["get_values"] = t.get_values()
    a["get_value"] = {(x, y): t.get_value((x, y)) for y in range(H + 1) for x in range(W + 1)}
    a["get_row_values"] = [t.get_row_values(y) for y in range(H)]
    a["get_row.width"] = [t.get_row(y, clone=False).width for y in range(H)]
    a["get_column_values"] = [t.get_column_values(x) for x in _col_sample(W, light)]
    if W >= 2 and H >= 2 and not light:
        a["get_values(area)"] = t.get_values((1, 1, W - 1, H - 1))
    a["column styles"] = [c.style for c in t.get_columns()]
    # what the single-item getters hand out is a column / a row (a wrapper cache shared between kinds would
    # answer with the other class, whose homonymous properties hide it)
    a["classes"] = ([type(c).__name__ for c in t.get_columns()], [type(r).__name__ for r in t.get_rows()])
    return a


def model_answers(g, light=False):
    """the same reads answered by a grid"""
    W, H = g.W, g.H
    a = {"size": (W, H)}
    a["width/height"] = (W, H)
    a["get_values"] = g.matrix()
    a["get_value"] = {(x, y): g.value(x, y) for y in range(H + 1) for x in range(W + 1)}
    a["get_row_values"] = [g.row_values(y) for y in range(H)]
    a["get_row.width"] = [len(r) for r in g.rows]
    a["get_column_values"] = [[g.value(x, y) for y in range(H)] for x in _col_sample(W, light)]
    if W >= 2 and H >= 2 and not light:
        a["get_values(area)"] = [[g.value(x, y) for x in range(1, W)] for y in range(1, H)]
    a["column styles"] = list(g.cols)
    a["classes"] = (["Column"] * W, ["Row"] * H)
    return a


def first_diff(a, b, na, nb):
    for k in a:
        if k not in b or a[k] != b[k]:
            va, vb = a[k], b.get(k)
            if isinstance(va, dict) and isinstance(vb, dict):
                for kk in va:
                    if va[kk] != vb.get(kk, "<absent>"):
                        return f"{k}{kk}: {na} {va[kk]!r} != {nb} {vb.get(kk, '<absent>')!r}"
                return f"{k}: {na} has {len(va)} answers, {nb} has {len(vb)}"
            return f"{k}: {na} {va!r} != {nb} {vb!r}"
    return None


def check_state(t, g, kinds=("grid", "fresh", "xml"), first_row_added=False, light=False):
    """returns {kind: detail} for the violated kinds.
    grid: every live read == the reference grid's answer.
    fresh: every live read == the answer derived from the matrix / size / column slots of a fresh parse of the
    table's own serialisation, and == the answer derived from the raw-lxml expansion of the live XML."""
    from odfdo import Element
    out = {}
    try:
        live = live_answers(t, light)
    except Exception as e:  # noqa
        live = None
        out["grid"] = f"a read of the live table raised {type(e).__name__}: {e}"
        out["fresh"] = out["grid"]
    if live is not None:
        if "grid" in kinds and g is not None:
            d = first_diff(model_answers(g, light), live, "grid", "live")
            if d:
                out["grid"] = d
        if "fresh" in kinds:
            try:
                f = Element.from_tag(t.serialize())
                fg = Grid([r.get_values() for r in f.traverse()], [c.style for c in f.get_columns()])
                d = None
                if f.size != (fg.W, fg.H):
                    d = f"fresh parse is not coherent with itself: size {f.size}, rows {fg.rows!r}, {fg.W} columns"
                d = d or first_diff(model_answers(fg, light), live, "fresh parse", "live")
                if not d:
                    raw = Raw(t)
                    d = first_diff(model_answers(Grid(raw.values(), raw.cols), light), live, "raw expansion", "live")
                if d:
                    out["fresh"] = d
            except Exception as e:  # noqa
                out["fresh"] = f"fresh parse raised {type(e).__name__}: {e}"
    if "xml" in kinds:
        bad = xml_structure(t, first_row_added)
        if bad:
            out["xml"] = "; ".join(bad[:3])
    return out


def cache_reads(t):
    """the cache-populating reads of C02 (get_row, get_cell, traverse, get_column) before a mutation"""
    W, H = t.size
    for y in range(H):
        t.get_row(y)
        t.get_cell((0, y))
    for _r in t.traverse():
        pass
    for x in range(W):
        t.get_column(x)


_INIT_OK: dict = {}


def _play(init, ops, reads, check=True):
    """Plays the operations on a fresh instance of the initial table and on the reference grid.  With `reads`
    the cache-populating reads and all the checks are made around every step on the live object; without, no read
    at all is made before the end of the history.  Returns (table, grid, concrete ops, failure) where failure is
    None or (step, operation name, input class, {kind: detail}, kinds checked)."""
    t, g = build_init(init)
    done = []
    first = None
    for i, sym in enumerate(ops):
        op = resolve(sym, g)
        done.append(op)
        name = op[0]
        kinds = ("fresh", "xml") if name == "live_row_repeated" else ("grid", "fresh", "xml")
        cls = input_class(t, op)
        if reads:
            try:
                cache_reads(t)
            except Exception as e:  # noqa
                if first is not None:
                    return t, g, done, first
                return t, g, done, (i, name, cls + ("" if cls.endswith("-cached") else "-cached"),
                                    {"fresh": f"a read before the call raised {type(e).__name__}: {e}"}, kinds)
            cls = input_class(t, op)
        h_before = g.H
        try:
            apply_real(t, op)
        except Exception as e:  # noqa
            if first is not None:
                return t, g, done, first       # the state was already wrong: nothing more to learn from this history
            return t, g, done, (i, name, cls, {kinds[0]: f"raised {type(e).__name__}: {e}"}, kinds)
        if name == "live_row_repeated":
            g = Grid.from_raw(Raw(t))       # no grid semantics claimed for it: C02 / C07 only
        else:
            apply_model(g, op)
        if check and (reads or i == len(ops) - 1):
            bad = check_state(t, g, kinds, first_row_added=(h_before == 0 and g.H > 0), light=len(ops) > 1)
            if bad and first is None:
                first = (i, name, cls, dict(bad), kinds)
            elif bad:
                # the history goes on after a failure: a kind that was still fine (e.g. the XML structure after a
                # stale-cache read failure) may break at a later step; it is blamed on the first failing operation
                for k, v in bad.items():
                    if k in first[4]:       # only the kinds that are claimed for the first failing operation
                        first[3].setdefault(k, f"(history continued after the failure at step {first[0]}) step {i} {name}: {v}")
            if first is not None and all(k in first[3] for k in first[4]):
                return t, g, done, first
    return t, g, done, first


def run_history(init, ops, reads):
    """returns (NativeResult, live table, grid, passed?).  A failure is blamed on the last operation of the
    shortest failing prefix (without `reads` the prefixes are replayed on instances of their own, so that the
    history itself stays free of reads)."""
    res = NativeResult()
    if init not in _INIT_OK:        # the domain check reads (and caches): done once, on an instance of its own
        _INIT_OK[init] = check_state(*build_init(init))
    if _INIT_OK[init]:
        # the initial table itself does not read like its own definition: reported once, on the empty history
        res.outcome = f"initial table {init} fails its own check: {_INIT_OK[init]}"
        if ops:
            res.in_domain = False
        else:
            res.checked = 3
            for kind, detail in _INIT_OK[init].items():
                _report(res, f"ensures:{kind}-initial", f"{init}: {detail}")
        return res, None, None, False
    t, g, done, fail = _play(init, ops, reads)
    if fail is not None and not reads:
        for n in range(1, len(ops)):
            _t, _g, d2, f2 = _play(init, ops[:n], False)
            if f2 is not None:
                done, fail = d2, f2
                break
    res.checked = 3 * (len(ops) if reads else 1)
    if fail is None:
        res.outcome = f"{done}: ok, size {g.W}x{g.H}"
        return res, t, g, True
    _i, name, cls, bad, _kinds = fail
    res.case = (cls or "-plain")[1:]
    res.outcome = f"{done}: failed {sorted(bad)}"
    for kind, detail in bad.items():
        _report(res, f"ensures:{kind}-{name}{cls}", f"{init} {done}: {detail}")
    return res, t, g, False


# ---------------------------------------------------------------------- alphabets
E = ("e", 0)
LAST = ("e", -1)
BEY = ("e", 2)


def full_alphabet(coords=(0, 1, 2, LAST, E, BEY)):
    """every operation x every coordinate form (in range, last, at the edge, beyond) x repeats 1..3"""
    ops = []
    v = 100
    for x in coords:
        for y in coords:
            ops.append(("set_value", x, y, v))
            ops.append(("delete_cell", x, y))
            for k in (1, 2, 3):
                ops.append(("set_cell", x, y, v + k, k))
                if k < 3:
                    ops.append(("insert_cell", x, y, v + 10 + k, k))
    for y in coords:
        ops.append(("delete_row", y))
        for k in (1, 2, 3):
            ops.append(("append_cell", y, v + 20 + k, k))
            for rc in ROW_CONTENTS:
                ops.append(("set_row", y, rc, v + 30, k))
                ops.append(("insert_row", y, rc, v + 40, k))
            ops.append(("rappend_cell", y, v + 50 + k, k))
        for x in coords:
            ops.append(("rdelete_cell", y, x))
            for k in (1, 2, 3):
                ops.append(("rset_cell", y, x, v + 60 + k, k))
                if k < 3:
                    ops.append(("rinsert_cell", y, x, v + 70 + k, k))
        for rc in ("R1", "R3"):
            for st in (0, 1, E, BEY):
                ops.append(("rset_values", y, rc, st))
        for k in (1, 3):
            ops.append(("live_row_repeated", y, k))
    for k in (1, 2, 3):
        for rc in ROW_CONTENTS:
            ops.append(("append_row", rc, v + 80, k))
        ops.append(("append_column", "cz", k))
        for x in coords:
            ops.append(("insert_column", x, "cy", k))
    for x in coords:
        ops.append(("delete_column", x))
        ops.append(("set_column_cells", x, v + 90))
    for spec in ("1x1", "2x2", "1x3", "gap"):
        for x, y in ((0, 0), (1, 1), (0, E), (E, 0), (BEY, BEY), (LAST, LAST)):
            ops.append(("set_values", spec, x, y))
            ops.append(("set_cells", spec, x, y))
    for y in coords:
        for rc in ("R1", "R3"):
            ops.append(("set_row_values", y, rc))
            ops.append(("set_row_cells", y, rc))
    for x in coords:
        ops.append(("set_column_values", x, v + 95))
    for rc in ROW_CONTENTS:
        for k in (1, 2):
            ops.append(("extend_rows", rc, v + 85, k))
    ops.append(("clear",))
    return ops


REDUCED = [
    ("set_value", 1, 1, 201), ("set_value", BEY, BEY, 202),
    ("set_cell", 0, 0, 203, 2), ("set_cell", 1, 0, 204, 3),
    ("insert_cell", 1, 1, 205, 1), ("insert_cell", 0, E, 206, 2),
    ("append_cell", 0, 207, 1), ("delete_cell", 0, 1),
    ("set_row", 1, "R3", 210, 1), ("set_row", 0, "R1", 220, 2),
    ("insert_row", 1, "R1", 230, 1), ("insert_row", 0, "R3", 240, 2), ("append_row", "R3", 250, 2),
    ("delete_row", 0), ("delete_row", 1),
    ("insert_column", 0, "cy", 1), ("insert_column", 1, "cy", 2), ("append_column", "cz", 2),
    ("delete_column", 0), ("delete_column", LAST),
    ("set_column_cells", 1, 260), ("set_values", "2x2", 1, 1),
    ("set_cells", "2x2", 1, 0), ("set_row_values", 1, "R3"), ("set_row_cells", 0, "R3"), ("set_column_values", 0, 280),
    ("extend_rows", "R3", 290, 2), ("clear",),
    ("rset_cell", 1, 0, 270, 2), ("rinsert_cell", 1, 1, 271, 1), ("rappend_cell", 0, 272, 2),
    ("rdelete_cell", 1, 0), ("rset_values", 0, "R3", 1),
]
L2_INITS = ["empty", "new-2x2", "x-rowrun", "x-ragged", "x-cellruns"]


def _gen_h1(con, sigcase, count, seed):
    _new_pass(con)
    thorough = count > 200
    inits = list(QUICK_INITS)
    if thorough:
        inits += [f"rnd-{seed * 1000 + i}" for i in range(30)]
    alpha = full_alphabet()
    small = full_alphabet((0, 1, LAST, BEY))
    for init in inits:
        yield {"init": init, "history": (), "reads": False}
        for op in (small if init == "ods-Example1" and not thorough else alpha):
            yield {"init": init, "history": (op,), "reads": False}


def _gen_h2(con, sigcase, count, seed):
    _new_pass(con)
    thorough = count > 200
    rnd = random.Random(seed)
    for init in L2_INITS:
        for a in REDUCED:
            for b in REDUCED:
                yield {"init": init, "history": (a, b), "reads": False}
                yield {"init": init, "history": (a, b), "reads": True}
    if thorough:
        inits = QUICK_INITS + [f"rnd-{seed * 1000 + i}" for i in range(30)]
        for init in inits[:len(QUICK_INITS) + 8]:
            if init in L2_INITS:
                continue
            for a in REDUCED:
                for b in REDUCED:
                    yield {"init": init, "history": (a, b), "reads": True}
        alpha = full_alphabet()
        for _ in range(count):
            h = tuple(rnd.choice(alpha) for _ in range(3))
            init = rnd.choice(inits)
            reads = rnd.random() < 0.5
            if not reads:       # checked after every step: the prefixes are histories of their own
                yield {"init": init, "history": h[:2], "reads": False}
            yield {"init": init, "history": h, "reads": reads}


def _guarded(call):
    """an exception escaping the harness is a failure of the `no-crash` clause, never a crash of the run"""
    def wrapped(con, fn, argvals, labels):
        _CURRENT[0] = con.target
        try:
            return call(con, fn, argvals, labels)
        except Exception as e:  # noqa
            import traceback
            res = NativeResult()
            res.checked = 1
            tb = traceback.extract_tb(e.__traceback__)[-1]
            _report(res, "ensures:no-crash", f"{argvals!r}: {type(e).__name__}: {e} at {tb.filename.rsplit('/', 1)[-1]}:"
                    f"{tb.lineno} {tb.name}")
            res.outcome = "crashed"
            return res
    return wrapped


@_guarded
def _call_history(con, fn, argvals, labels):
    res, _t, _g, _ok = run_history(argvals["init"], argvals["history"], argvals["reads"])
    return res


def _history_clauses():
    props = {"grid": {"C01"}, "fresh": {"C02"}, "xml": {"C07"}}
    out = [Clause(f"{kind}-initial", props[kind], lambda a, r, p: True) for kind in props]
    out.append(Clause("no-crash", {"C01", "C02", "C07"}, lambda a, r, p: True))
    for n in OPS:
        for cl in CLASSES[n]:
            for cached in ("", "-cached"):
                for kind in ("grid", "fresh", "xml"):
                    if n == "live_row_repeated" and kind == "grid":
                        continue
                    out.append(Clause(f"{kind}-{n}{cl}{cached}", props[kind], lambda a, r, p: True))
    return out


_H_REASON = ("history-level statement over run-length encoded XML: the per-function contracts are proved or bounded in "
             "specs/vault*.py; this is the composition over call sequences, checked natively")
_ALPHA_TXT = ("alphabet {set_value, set_cell, insert_cell, append_cell, delete_cell, set_row, insert_row, append_row, "
              "delete_row, insert_column, append_column, delete_column, set_column_cells, set_column_values, set_values(block), "
              "set_cells(block), set_row_values, set_row_cells, extend_rows, clear, and "
              "Row.set_cell/insert_cell/append_cell/delete_cell/set_values on a get_row copy pushed back with set_row, "
              "live row.repeated=n}")

contract(
    "odfdo.table:Table[history<=1]",
    sig=dict(init=Str, history=Opaque(tuple), reads=Opaque(bool)),
    ensures=_history_clauses(),
    gen=_gen_h1, call_native=_call_history,
    bounded=dict(
        scope="the empty history and every single operation of the full alphabet (about 840 calls: " + _ALPHA_TXT + ") with "
              "coordinates {0, 1, 2, last, edge, edge+2} on each axis, repeat counts 1..3 on set cells / rows / columns "
              "and 1..2 on inserted cells, row contents {no cell, one cell, cell runs (2,1)}, value blocks {1x1, 2x2, "
              "1x3 with a hole, 3 lines with an empty one} at 6 corners, Row.set_values starts {0, 1, edge, edge+2}, "
              "live repeats {1, 3}; on 10 initial tables: empty, Table(2,2), Table(3,1), 5 raw-XML tables with row runs "
              "x cell runs x column runs of repeats 1..3 (one ragged, one without any run), simple_table.ods Example1 "
              "(7x4; quick: coordinates {0, 1, last, edge+2}, 404 calls) and Example3 (2x2, text / float / date), both "
              "re-parsed from their serialisation; thorough: plus 30 random raw-XML tables (<= 3 row runs x <= 3 cell "
              "runs, repeats 1..3, values None / int / str).  After the step: size, every value incl. one beyond each "
              "edge, every row, row width, every column, an area, the matrix and the column styles are compared with "
              "the reference grid (C01), with a fresh parse and with the raw-lxml expansion (C02), and the XML structure "
              "rules are read with lxml (C07)",
        reason=_H_REASON),
)

contract(
    "odfdo.table:Table[history==2]",
    sig=dict(init=Str, history=Opaque(tuple), reads=Opaque(bool)),
    ensures=_history_clauses(),
    gen=_gen_h2, call_native=_call_history,
    bounded=dict(
        scope="all 1089 ordered pairs of a reduced alphabet of 33 operations on 5 initial tables (empty, Table(2,2), 3 "
              "raw-XML run-length tables, one ragged), each once checked only at the end (no read in "
              "between) and once with cache-populating reads (get_row, get_cell, traverse, get_column) and all checks "
              "after every step; thorough: plus the pairs (with reads) on the 5 other initial tables and 8 random raw-XML "
              "tables, and 8000 sampled histories of length 3 over the full alphabet on 40 tables, with their prefixes",
        reason=_H_REASON),
)


# ===================================================================== C07: names
TABLE_NAME_ALPHABET = "[]*?:/\\' \na"
_WS = " \n"


def table_name_rule(s):
    """(accepted?, stored name): the rule of the office suites for sheet names, on the name without its
    surrounding white space: not empty, none of []*?:/\\ nor a line feed inside, no apostrophe first or last"""
    st = s.strip(_WS)
    ok = st != "" and not any(ch in "[]*?:/\\\n" for ch in st) and st[0] != "'" and st[-1] != "'"
    return ok, st


def _gen_table_names(con, sigcase, count, seed):
    _new_pass(con)
    n = 3 if count <= 200 else 4
    for k in range(0, n + 1):
        for tup in itertools.product(TABLE_NAME_ALPHABET, repeat=k):
            yield {"name": "".join(tup)}
    for s in ["Sheet 1", "l'été", "a'b", "'a'", "a\tb", " x ", "Feuille1", "a.b", "a$b", "x y"]:
        yield {"name": s}


@_guarded
def _call_table_name(con, fn, argvals, labels):
    from odfdo import Table
    from odfdo.table import _table_name_check
    res = NativeResult()
    s = argvals["name"]
    ok, st = table_name_rule(s)
    res.checked = 3
    got = {}
    for how, f in (("_table_name_check", lambda: _table_name_check(s)), ("Table", lambda: Table(s))):
        try:
            got[how] = ("accepted", f())
        except ValueError as e:
            got[how] = ("refused", e)
        except Exception as e:  # noqa
            got[how] = ("crashed", e)
    res.outcome = f"{s!r}: " + ", ".join(f"{k} {v[0]}" for k, v in got.items())
    for how, (verdict, val) in got.items():
        if verdict != ("accepted" if ok else "refused"):
            _report(res, "ensures:table-name-accepted-iff-valid", f"{how}({s!r}) {verdict} ({val!r}); the rule says "
                    f"{'accept' if ok else 'refuse'}")
    if ok and got["_table_name_check"][0] == "accepted" and got["_table_name_check"][1] != st:
        _report(res, "ensures:table-name-stored", f"_table_name_check({s!r}) returned {got['_table_name_check'][1]!r}")
    if ok and got["Table"][0] == "accepted":
        t = got["Table"][1]
        raw = lx(t).get(TABLE_NS + "name")
        if raw != st or t.name != st:
            _report(res, "ensures:table-name-stored", f"Table({s!r}) stores {raw!r}, answers {t.name!r}, expected {st!r}")
    return res


contract(
    "odfdo.table:_table_name_check",
    sig=dict(name=Str),
    ensures=[Clause("table-name-accepted-iff-valid", {"C07"}, lambda a, r, p: True),
             Clause("table-name-stored", {"C07"}, lambda a, r, p: True),
             Clause("no-crash", {"C07"}, lambda a, r, p: True)],
    gen=_gen_table_names, call_native=_call_table_name,
    bounded=dict(scope="all strings of length <= 3 (quick) / <= 4 (thorough) over the 11-letter alphabet "
                       "[ ] * ? : / \\ ' space LF a, plus 10 hand-picked names; both _table_name_check(s) and Table(s)",
                 reason="regular-language equivalence of _RE_TABLE_NAME with the office rule; stated as a z3 regex "
                        "proof in DESIGN, checked here exhaustively on a small alphabet"),
)

RANGE_NAME_ALPHABET = "Ab10_ .$-"


def range_name_rule(s):
    """named ranges: not empty, only letters digits underscore, not of the cell-reference form letters+digits
    (on the name without surrounding spaces)"""
    import re
    st = s.strip(_WS)
    ok = (st != "" and re.fullmatch(r"[A-Za-z0-9_]+", st) is not None
          and re.fullmatch(r"[A-Za-z]+[0-9]+", st) is None)
    return ok, st


def _gen_range_names(con, sigcase, count, seed):
    _new_pass(con)
    n = 4 if count <= 200 else 5
    for k in range(0, n + 1):
        for tup in itertools.product(RANGE_NAME_ALPHABET, repeat=k):
            yield {"name": "".join(tup)}
    for s in ["AB12", "ab12", "A1B", "a_1", "_A1", "A_1", "XFD1048576", "range", "R1C1", "A1_", "a1 ", "Z9Z9"]:
        yield {"name": s}


@_guarded
def _call_range_name(con, fn, argvals, labels):
    from odfdo.table import NamedRange
    res = NativeResult()
    s = argvals["name"]
    ok, st = range_name_rule(s)
    res.checked = 2
    got = {}
    try:
        got["NamedRange"] = ("accepted", NamedRange(s, "A1", "t"))
    except ValueError as e:
        got["NamedRange"] = ("refused", e)
    except Exception as e:  # noqa
        got["NamedRange"] = ("crashed", e)
    try:
        nr = NamedRange("valid_name", "A1:B2", "t")
        nr.name = s
        got["name setter"] = ("accepted", nr)
    except ValueError as e:
        got["name setter"] = ("refused", e)
    except Exception as e:  # noqa
        got["name setter"] = ("crashed", e)
    res.outcome = f"{s!r}: " + ", ".join(f"{k} {v[0]}" for k, v in got.items())
    for how, (verdict, val) in got.items():
        if verdict != ("accepted" if ok else "refused"):
            _report(res, "ensures:range-name-accepted-iff-valid", f"{how} {verdict} {s!r} ({val!r}); the rule says "
                    f"{'accept' if ok else 'refuse'}")
        elif ok:
            raw = lx(val).get(TABLE_NS + "name")
            if raw != st or val.name != st:
                _report(res, "ensures:range-name-stored", f"{how}({s!r}) stores {raw!r}, expected {st!r}")
    return res


contract(
    "odfdo.table:NamedRange.name",
    sig=dict(name=Str),
    ensures=[Clause("range-name-accepted-iff-valid", {"C07"}, lambda a, r, p: True),
             Clause("range-name-stored", {"C07"}, lambda a, r, p: True),
             Clause("no-crash", {"C07"}, lambda a, r, p: True)],
    gen=_gen_range_names, call_native=_call_range_name,
    bounded=dict(scope="all strings of length <= 4 (quick) / <= 5 (thorough) over the 9-letter alphabet "
                       "A b 1 0 _ space . $ -, plus 12 hand-picked names; NamedRange(name, ...) and the name setter",
                 reason="two character loops with a small state machine; bounded stand-in named in DESIGN C07"),
)


# ===================================================================== reached tables (C08 / C10 / C17 pools)
REACH_OPS = [
    (), (("set_value", 1, 1, 201),), (("set_value", BEY, BEY, 202),), (("set_cell", 0, 0, 203, 2),),
    (("insert_cell", 1, 1, 205, 2),), (("insert_row", 1, "R3", 240, 2),), (("append_row", "R3", 250, 3),),
    (("insert_column", 1, "cy", 2),), (("delete_row", 0),), (("rappend_cell", 0, 272, 2),),
    (("set_values", "gap", 1, 0),), (("delete_column", 0),),
]
REACH_INITS = ["empty", "new-2x2", "x-rowrun", "x-ragged", "x-cellruns", "x-rowruns3", "ods-Example3"]


def reached_keys(inits=None, ops=None):
    return [(i, h) for i in (inits or REACH_INITS) for h in (ops or REACH_OPS)]


_REACH_OK: dict = {}


def reach(init, history):
    """(table, grid) after the history, or None when a step does not pass its own checks (known defects)"""
    if init not in _INIT_OK:
        _INIT_OK[init] = check_state(*build_init(init))
    if _INIT_OK[init]:
        return None
    key = (init, history)
    if key not in _REACH_OK:        # checked once; later calls replay the history on a new instance, unread
        _REACH_OK[key] = _play(init, history, False)[3] is None
    if not _REACH_OK[key]:
        return None
    t, g, _done, fail = _play(init, history, False, check=False)
    return None if fail is not None else (t, g)


# ===================================================================== C08: getters
def _has_repeat(obj, kind):
    return lx(obj).get(REP_ATTR[kind]) is not None


def _ranges(n):
    """all (start, end) with 0 <= start <= end <= n (end == n is one beyond the last)"""
    return [(s, e) for s in range(0, n + 1) for e in range(s, n + 1)]


def _cell_mutations():
    return [("set_value(987)", lambda c: c.set_value(987)), ("clear()", lambda c: c.clear())]


def _row_mutations():
    from odfdo import Cell
    return [("set_value(0, 987)", lambda r: r.set_value(0, 987)),
            ("append_cell(Cell(986))", lambda r: r.append_cell(Cell(986))),
            ("clear()", lambda r: r.clear())]


def _col_mutations():
    return [("style = 'zz'", lambda c: setattr(c, "style", "zz"))]


class _Item:
    """one object returned by a getter, with where it was read from and what it must contain"""

    def __init__(self, obj, kind, x=None, y=None, content=None, expanded=False, owner=None, check_content=True):
        self.obj, self.kind, self.x, self.y = obj, kind, x, y
        self.content, self.expanded, self.owner, self.check_content = content, expanded, owner, check_content


def _read_items(getter, t, g):
    """calls the getter on the table (all coordinate forms / ranges of the scope) -> list of _Item"""
    W, H = g.W, g.H
    out = []

    def cell_item(c, x, y, expanded, owner=None):
        out.append(_Item(c, "cells", x, y, g.value(x, y), expanded, owner))

    def row_item(r, y, expanded):
        out.append(_Item(r, "rows", None, y, list(g.rows[y]) if y < H else [], expanded))

    def col_item(c, x, expanded):
        out.append(_Item(c, "cols", x, None, g.cols[x] if x < W else None, expanded))

    if getter == "get_cell":
        for y in range(H):
            for x in range(W):
                cell_item(t.get_cell((x, y)), x, y, False)
    elif getter == "get_cell-keep_repeated=False":
        for y in range(H):
            for x in range(W):
                cell_item(t.get_cell((x, y), keep_repeated=False), x, y, True)
    elif getter == "get_row":
        for y in range(H):
            row_item(t.get_row(y), y, False)
    elif getter in ("get_cells", "cells"):
        lines = t.get_cells() if getter == "get_cells" else t.cells
        for y, line in enumerate(lines):
            for x, c in enumerate(line):
                cell_item(c, x, y, True)
    elif getter == "get_cells-flat":
        lines = t.get_cells(flat=True)
        pos = [(x, y) for y in range(H) for x in range(len(g.rows[y]))]
        for c, (x, y) in zip(lines, pos):
            cell_item(c, x, y, True)
    elif getter == "get_cells-area":
        for (x, z) in _ranges(W)[::2]:
            for (y, tt) in _ranges(H)[::3]:
                for j, line in enumerate(t.get_cells((x, y, z, tt))):
                    for i, c in enumerate(line):
                        cell_item(c, x + i, y + j, True)
    elif getter in ("get_rows", "rows", "traverse"):
        rows = t.get_rows() if getter == "get_rows" else t.rows if getter == "rows" else list(t.traverse())
        for y, r in enumerate(rows):
            row_item(r, y, True)
    elif getter in ("get_rows-range", "traverse-range"):
        for (s, e) in _ranges(H):
            rows = t.get_rows((s, e)) if getter == "get_rows-range" else list(t.traverse(start=s, end=e))
            for i, r in enumerate(rows):
                row_item(r, s + i, True)
    elif getter == "get_column":
        for x in range(W):
            col_item(t.get_column(x), x, False)
    elif getter in ("get_columns", "columns", "traverse_columns"):
        cols = t.get_columns() if getter == "get_columns" else t.columns if getter == "columns" else list(t.traverse_columns())
        for x, c in enumerate(cols):
            col_item(c, x, True)
    elif getter in ("get_columns-range", "traverse_columns-range"):
        for (s, e) in _ranges(W):
            cols = t.get_columns((s, e)) if getter == "get_columns-range" else list(t.traverse_columns(start=s, end=e))
            for i, c in enumerate(cols):
                col_item(c, s + i, True)
    elif getter == "get_column_cells":
        for x in range(W):
            for y, c in enumerate(t.get_column_cells(x)):
                cell_item(c, x, y, False)
    elif getter.startswith("Row."):
        for y in range(H):
            r = t.get_row(y)
            rw = len(g.rows[y])
            if getter == "Row.get_cell":
                for x in range(rw):
                    cell_item(r.get_cell(x), x, y, False, owner=r)
            elif getter in ("Row.traverse", "Row.cells", "Row.get_cells"):
                cells = list(r.traverse()) if getter == "Row.traverse" else r.cells if getter == "Row.cells" else r.get_cells()
                for x, c in enumerate(cells):
                    cell_item(c, x, y, True, owner=r)
            elif getter in ("Row.traverse-range", "Row.get_cells-range"):
                for (s, e) in _ranges(rw):
                    cells = list(r.traverse(start=s, end=e)) if getter == "Row.traverse-range" else r.get_cells((s, e))
                    for i, c in enumerate(cells):
                        cell_item(c, s + i, y, True, owner=r)
            else:
                raise KeyError(getter)
    else:
        raise KeyError(getter)
    return out


GETTERS = ["get_cell", "get_cell-keep_repeated=False", "get_row", "get_cells", "get_cells-flat", "get_cells-area", "cells",
           "get_rows", "get_rows-range", "rows", "traverse", "traverse-range", "get_column", "get_columns",
           "get_columns-range", "columns", "traverse_columns", "traverse_columns-range", "get_column_cells",
           "Row.get_cell", "Row.traverse", "Row.traverse-range", "Row.cells", "Row.get_cells", "Row.get_cells-range"]
OUTSIDE = ["get_cell", "get_row", "get_column", "get_column_cells", "Row.get_cell", "get_value"]


def _content_of(it):
    if it.kind == "cells":
        return it.obj.get_value()
    if it.kind == "rows":
        return it.obj.get_values()
    return it.obj.style


def _check_families(res, init, history):
    """Single-item getters (served from the cached wrappers) and expanding getters (fresh wrappers) return the same
    content at every position, after cache-populating reads before every step: needs no reference grid, so it is
    checked on every state, coherent or not."""
    # histories in the input classes of the recorded findings (a repeated item set over following items, a live
    # row.repeated) are left to those findings
    t0, g0 = build_init(init)
    for sym in history:
        op = resolve(sym, g0)
        if "overlap" in input_class(t0, op) or op[0] == "live_row_repeated":
            res.in_domain = False
            return
        apply_real(t0, op)
        apply_model(g0, op)
    t, _g, _done, _fail = _play(init, history, True, check=False)
    where = f"{init} {list(history)} (reads before every step)"
    res.checked += 1
    matrix = t.get_values()
    H = len(matrix)
    W = max((len(r) for r in matrix), default=0)
    by_row = [t.get_row(y).get_values() for y in range(H)]
    by_row_values = [t.get_row_values(y) for y in range(H)]
    by_rows = [r.get_values() for r in t.get_rows()]
    pad = lambda rows: [list(r) + [None] * (W - len(r)) for r in rows]    # noqa: E731
    for name, got in (("get_row", by_row), ("get_row_values", by_row_values), ("get_rows", by_rows)):
        if pad(got) != pad(matrix):
            _report(res, "ensures:families-agree", f"{where}: {name} gives {got!r}, get_values gives {matrix!r}")
    for y in range(H):
        for x in range(W):
            v = t.get_value((x, y))
            c = t.get_cell((x, y)).get_value()
            if v != pad(matrix)[y][x] or c != v:
                _report(res, "ensures:families-agree", f"{where}: get_value({(x, y)}) = {v!r}, get_cell = {c!r}, get_values "
                        f"has {pad(matrix)[y][x]!r}")
                return


def _check_getter(res, getter, init, history):
    if getter == "families-agree":
        _check_families(res, init, history)
        return
    rt = reach(init, history)
    if rt is None:
        res.in_domain = False
        return
    t, g = rt
    where = f"{init} {list(history)}"
    s0 = t.serialize()
    size0 = t.size
    try:
        items = _read_items(getter, t, g)
    except Exception as e:  # noqa
        _report(res, f"ensures:coords-{getter}", f"{where}: the read raised {type(e).__name__}: {e}")
        return
    res.checked += 4
    res.outcome = f"{getter}: {len(items)} objects"
    if t.serialize() != s0 or t.size != size0:
        _report(res, f"ensures:detached-{getter}", f"{where}: the read itself changed the table")
        return
    for it in items:
        o = it.obj
        if it.kind == "cells" and (o.x, o.y) != (it.x, it.y):
            _report(res, f"ensures:coords-{getter}", f"{where}: cell read at {(it.x, it.y)} carries {(o.x, o.y)}")
            break
        if it.kind == "rows" and o.y != it.y:
            _report(res, f"ensures:coords-{getter}", f"{where}: row read at y={it.y} carries y={o.y}")
            break
        if it.kind == "cols" and o.x != it.x:
            _report(res, f"ensures:coords-{getter}", f"{where}: column read at x={it.x} carries x={o.x}")
            break
    for it in items:
        try:
            got = _content_of(it)
        except Exception as e:  # noqa
            got = f"raised {e!r}"
        if got != it.content:
            _report(res, f"ensures:content-{getter}", f"{where}: object read at {(it.x, it.y)} holds {got!r}, the grid "
                    f"{it.content!r}")
            break
    for it in items:
        if it.expanded and _has_repeat(it.obj, it.kind):
            _report(res, f"ensures:norepeat-{getter}", f"{where}: object read at {(it.x, it.y)} by an expanding read "
                    f"keeps {lx(it.obj).get(REP_ATTR[it.kind])!r} repetitions")
            break
    # detached copies: mutating one returned object changes neither the table, nor its owner row, nor the others
    muts = {"cells": _cell_mutations, "rows": _row_mutations, "cols": _col_mutations}
    before = [it.obj.serialize() for it in items]
    after = {}
    owners = {id(it.owner): (it.owner, it.owner.serialize()) for it in items if it.owner is not None}
    for n, it in enumerate(items):
        if it.obj.serialize() != before[n]:
            _report(res, f"ensures:detached-{getter}", f"{where}: the object read at {(it.x, it.y)} changed when "
                    f"another returned object was mutated")
            return
        for mname, mut in muts[it.kind]():
            try:
                mut(it.obj)
            except Exception as e:  # noqa
                _report(res, f"ensures:detached-{getter}", f"{where}: {mname} on the object read at {(it.x, it.y)} "
                        f"raised {type(e).__name__}: {e}")
                return
            if t.serialize() != s0:
                _report(res, f"ensures:detached-{getter}", f"{where}: {mname} on the object read at {(it.x, it.y)} "
                        f"changed the table")
                return
            for ow, ser in owners.values():
                if ow.serialize() != ser:
                    _report(res, f"ensures:detached-{getter}", f"{where}: {mname} on the cell read at {(it.x, it.y)} "
                            f"changed the row it was read from")
                    return
        after[n] = it.obj.serialize()
    for n, it in enumerate(items):
        if it.obj.serialize() != after[n]:
            _report(res, f"ensures:detached-{getter}", f"{where}: the object read at {(it.x, it.y)} changed when "
                    f"another returned object was mutated")
            return
    bad = check_state(t, g, light=True)
    if bad:
        _report(res, f"ensures:detached-{getter}", f"{where}: after mutating the returned objects: {bad}")


def _check_outside(res, getter, init, history):
    from odfdo import Cell
    rt = reach(init, history)
    if rt is None:
        res.in_domain = False
        return
    t, g = rt
    W, H = g.W, g.H
    where = f"{init} {list(history)}"
    s0 = t.serialize()
    res.checked += 1
    lab = f"ensures:outside-{getter}"
    empty_cell = Cell().serialize()

    def same():
        return t.serialize() == s0 and t.size == (W, H)

    try:
        if getter in ("get_cell", "get_value"):
            for (x, y) in [(W, 0), (W + 2, 0), (0, H), (0, H + 2), (W, H), (W + 2, H + 2)] + \
                          [(len(g.rows[yy]), yy) for yy in range(H)]:
                if getter == "get_value":
                    v = t.get_value((x, y))
                    if v is not None or not same():
                        _report(res, lab, f"{where}: get_value({(x, y)}) = {v!r}, size now {t.size}")
                        return
                    continue
                c = t.get_cell((x, y))
                if c.serialize() != empty_cell or (c.x, c.y) != (x, y) or not same():
                    _report(res, lab, f"{where}: get_cell({(x, y)}) = {c.serialize()} at {(c.x, c.y)}, size now {t.size}")
                    return
                c.set_value(5)
                if not same():
                    _report(res, lab, f"{where}: writing into the cell returned by get_cell({(x, y)}) changed the table")
                    return
        elif getter == "get_row":
            for y in (H, H + 2):
                r = t.get_row(y)
                if r.width != 0 or r.get_values() != [] or r.y != y or not same():
                    _report(res, lab, f"{where}: get_row({y}) = {r.serialize()} y={r.y}, size now {t.size}")
                    return
                r.set_value(1, 5)
                if not same():
                    _report(res, lab, f"{where}: writing into the row returned by get_row({y}) changed the table")
                    return
        elif getter == "get_column":
            for x in (W, W + 2):
                c = t.get_column(x)
                if c.style is not None or c.x != x or _has_repeat(c, "cols") or not same():
                    _report(res, lab, f"{where}: get_column({x}) = {c.serialize()} x={c.x}, size now {t.size}")
                    return
        elif getter == "get_column_cells":
            for x in (W, W + 2):
                cells = t.get_column_cells(x)
                if len(cells) != H or any(c.serialize() != empty_cell for c in cells) or not same():
                    _report(res, lab, f"{where}: get_column_cells({x}) = {[c.serialize() for c in cells]}, size now {t.size}")
                    return
                if [(c.x, c.y) for c in cells] != [(x, y) for y in range(H)]:
                    _report(res, lab, f"{where}: get_column_cells({x}) coordinates {[(c.x, c.y) for c in cells]}")
                    return
        elif getter == "Row.get_cell":
            for y in range(H):
                r = t.get_row(y)
                ser = r.serialize()
                for x in (len(g.rows[y]), len(g.rows[y]) + 2):
                    c = r.get_cell(x)
                    if c.serialize() != empty_cell or (c.x, c.y) != (x, y) or r.serialize() != ser or r.width != len(g.rows[y]):
                        _report(res, lab, f"{where}: get_row({y}).get_cell({x}) = {c.serialize()} at {(c.x, c.y)}, row "
                                f"width now {r.width}")
                        return
    except Exception as e:  # noqa
        _report(res, lab, f"{where}: raised {type(e).__name__}: {e}")
    res.outcome = f"outside-{getter}"


def _gen_getters(con, sigcase, count, seed):
    _new_pass(con)
    thorough = count > 200
    keys = reached_keys()
    if thorough:
        keys = reached_keys(QUICK_INITS + [f"rnd-{seed * 1000 + i}" for i in range(10)],
                            REACH_OPS + [(o,) for o in REDUCED[::3]])
    for init, h in keys:
        for gt in GETTERS:
            yield {"init": init, "history": h, "getter": gt}
        yield {"init": init, "history": h, "getter": "families-agree"}
        for gt in OUTSIDE:
            yield {"init": init, "history": h, "getter": "outside:" + gt}


@_guarded
def _call_getters(con, fn, argvals, labels):
    res = NativeResult()
    gt = argvals["getter"]
    if gt.startswith("outside:"):
        _check_outside(res, gt[8:], argvals["init"], argvals["history"])
    else:
        _check_getter(res, gt, argvals["init"], argvals["history"])
    return res


contract(
    "odfdo.table:Table[getters]",
    sig=dict(init=Str, history=Opaque(tuple), getter=Str),
    ensures=[Clause(f"{c}-{gt}", {"C08"}, lambda a, r, p: True)
             for gt in GETTERS for c in ("coords", "content", "norepeat", "detached")]
            + [Clause(f"outside-{gt}", {"C08"}, lambda a, r, p: True) for gt in OUTSIDE]
            + [Clause("no-crash", {"C08"}, lambda a, r, p: True), Clause("families-agree", {"C08"}, lambda a, r, p: True)],
    gen=_gen_getters, call_native=_call_getters,
    bounded=dict(
        scope="families-agree: single-item getters (cached wrappers) and expanding getters (fresh wrappers) return the same "
              "content at every position after cache-populating reads before every step, on every state, coherent or not; "
              "25 getter forms {get_cell (keep_repeated True/False), get_row, get_cells (all, flat, areas), cells, "
              "get_rows / traverse (all, every (start,end) range), rows, get_column, get_columns / traverse_columns "
              "(all, every range), columns, get_column_cells, Row.get_cell, Row.traverse / Row.get_cells (all, every "
              "range), Row.cells} at every coordinate of 7 initial tables (empty, Table(2,2), 4 raw-XML run-length "
              "tables, simple_table.ods Example3) each also after one of 11 operations (only states that pass their own "
              "C01/C02/C07 checks); each returned object mutated with every listed setter of its class (Cell: set_value, "
              "clear; Row: set_value, append_cell, clear; Column: style); reads one and three positions outside the "
              "populated area for get_cell, get_value, get_row, get_column, get_column_cells, Row.get_cell; thorough: "
              "10 + 10 random initial tables x 20 operations",
        reason="nested generator loops over run-length maps; DESIGN C08 names this bounded stand-in"),
)


# ===================================================================== C19 (table part): every form of address agrees
def _alpha(x):
    """independent column letters: 0 -> A, 25 -> Z, 26 -> AA"""
    s = ""
    x += 1
    while x > 0:
        x, r = divmod(x - 1, 26)
        s = chr(65 + r) + s
    return s


ADDRESS_FORMS = ["cell", "columns", "rows", "area"]


def _check_address(res, what, init, history):
    rt = reach(init, history)
    if rt is None:
        res.in_domain = False
        return
    t, g = rt
    W, H = g.W, g.H
    res.checked = 1
    if what == "cell":
        for y in range(H):
            for x in range(W):
                exp = g.value(x, y)
                forms = {"(x, y)": (x, y), "'A1'": f"{_alpha(x)}{y + 1}", "(x-W, y-H)": (x - W, y - H),
                         "(x, y-H)": (x, y - H), "(x-W, y)": (x - W, y)}
                for fname, coord in forms.items():
                    got = t.get_value(coord)
                    if got != exp:
                        _report(res, "ensures:cell-forms-agree", f"{init} {history}: get_value({coord!r}) [{fname}] == {got!r}, "
                                f"grid has {exp!r} at ({x}, {y})")
                    gc = t.get_cell(coord)
                    if gc.get_value() != exp or (gc.x, gc.y) != (x, y):
                        _report(res, "ensures:cell-forms-agree", f"{init} {history}: get_cell({coord!r}) [{fname}] holds "
                                f"{gc.get_value()!r} stamped ({gc.x}, {gc.y}); expected {exp!r} at ({x}, {y})")
    elif what == "columns":
        single = [t.get_column(i).style for i in range(W)]
        if single != list(g.cols):
            _report(res, "ensures:column-forms-agree", f"{init} {history}: get_column(i) styles {single!r} != grid {g.cols!r}")
        for s_ in range(W):
            for e in range(s_, W):
                exp = list(g.cols[s_:e + 1])
                forms = {"(s, e)": (s_, e), "'B:D'": f"{_alpha(s_)}:{_alpha(e)}", "(s-W, e-W)": (s_ - W, e - W),
                         "(s, 0, e, 0)": (s_, 0, e, 0)}
                for fname, coord in forms.items():
                    cols = t.get_columns(coord)
                    got = [c.style for c in cols]
                    xs = [c.x for c in cols]
                    if got != exp or xs != list(range(s_, e + 1)):
                        _report(res, "ensures:column-forms-agree", f"{init} {history}: get_columns({coord!r}) [{fname}] gives "
                                f"styles {got!r} at x={xs!r}; get_column(i) for i in {s_}..{e} gives {exp!r}")
    elif what == "rows":
        single = [t.get_row(i).get_values() for i in range(H)]
        for s_ in range(H):
            for e in range(s_, H):
                exp = single[s_:e + 1]
                forms = {"(s, e)": (s_, e), "'2:4'": f"{s_ + 1}:{e + 1}", "(s-H, e-H)": (s_ - H, e - H),
                         "(0, s, 0, e)": (0, s_, 0, e)}
                for fname, coord in forms.items():
                    rows = t.get_rows(coord)
                    got = [r.get_values() for r in rows]
                    ys = [r.y for r in rows]
                    if got != exp or ys != list(range(s_, e + 1)):
                        _report(res, "ensures:row-forms-agree", f"{init} {history}: get_rows({coord!r}) [{fname}] gives {got!r} "
                                f"at y={ys!r}; get_row(i) for i in {s_}..{e} gives {exp!r}")
    elif what == "area":
        # an area read in every form = the cell-by-cell reads of its positions (areas starting inside cell runs included)
        for y in range(H):
            for tt in range(y, min(H, y + 2)):
                for x in range(W):
                    for z in range(x, W):
                        exp = [[g.value(i, j) for i in range(x, z + 1)] for j in range(y, tt + 1)]
                        cellwise = [[t.get_value((i, j)) for i in range(x, z + 1)] for j in range(y, tt + 1)]
                        forms = {"(x, y, z, t)": (x, y, z, tt), "'B1:E2'": f"{_alpha(x)}{y + 1}:{_alpha(z)}{tt + 1}",
                                 "negative": (x - W, y - H, z - W, tt - H)}
                        if cellwise != exp:
                            _report(res, "ensures:area-forms-agree", f"{init} {history}: cell-by-cell reads of "
                                    f"({x},{y},{z},{tt}) give {cellwise!r}, grid has {exp!r}")
                        for fname, coord in forms.items():
                            got = t.get_values(coord)
                            if got != exp:
                                _report(res, "ensures:area-forms-agree", f"{init} {history}: get_values({coord!r}) "
                                        f"[{fname}] == {got!r}; cell by cell {exp!r}")
                            # get_cells does not pad rows shorter than the area (get_values does): absent = None
                            cells = [[c.get_value() for c in line] for line in t.get_cells(coord)]
                            cells = [line + [None] * (z - x + 1 - len(line)) for line in cells]
                            if cells != exp:
                                _report(res, "ensures:area-forms-agree", f"{init} {history}: get_cells({coord!r}) "
                                        f"[{fname}] holds {cells!r}; cell by cell {exp!r}")
    else:
        raise KeyError(what)


def _gen_address(con, sigcase, count, seed):
    _new_pass(con)
    thorough = count > 200
    keys = reached_keys()
    if thorough:
        keys = reached_keys(QUICK_INITS + [f"rnd-{seed * 1000 + i}" for i in range(10)],
                            REACH_OPS + [(o,) for o in REDUCED[::3]])
    for init, h in keys:
        for what in ADDRESS_FORMS:
            yield {"init": init, "history": h, "what": what}


@_guarded
def _call_address(con, fn, argvals, labels):
    res = NativeResult()
    _check_address(res, argvals["what"], argvals["init"], argvals["history"])
    return res


contract(
    "odfdo.table:Table[addressing]",
    sig=dict(init=Str, history=Opaque(tuple), what=Str),
    ensures=[Clause(lab, {"C19"}, lambda a, r, p: True)
             for lab in ("cell-forms-agree", "column-forms-agree", "row-forms-agree", "area-forms-agree", "no-crash")],
    gen=_gen_address, call_native=_call_address,
    bounded=dict(
        scope="every cell / every column range / every row range / every area of one or two rows of the reachable states used by the getters stand-in (7 "
              "initial tables incl. run-length encoded rows, cells and columns, each also after one of 11 operations), read "
              "through the tuple form, the spreadsheet string form ('B3', 'B:D', '2:4'; letters computed independently), "
              "the 4-tuple form and negative (from the end) forms; all must give the content and the stamps that "
              "element-by-element reads and the reference grid give",
        reason="range getters are generators over run-length maps (outside the executor's subset); the coordinate kernel "
               "itself (convert/translate, letters) is proved"),
)


# ===================================================================== C19 (named ranges): written address = read address
NR_TABLE_NAMES = ["Sheet1", "Sheet10", "a b", "a.b", "a$b", "it's me", "été", "Année été 2024", "x.y's z$", "0", "Data",
                  "Data 2024", "Feuille.1 x", "a_b", "tab.$A$1", "a'.b", "Q1 'final'.v2 x", "x''y", "a'.'b"]
NR_AREAS = [("B2", (1, 1, 1, 1)), ("A1:C2", (0, 0, 2, 1)), ((1, 1), (1, 1, 1, 1)), ((0, 0, 2, 1), (0, 0, 2, 1)),
            ("AAA10:AAB11", (702, 9, 703, 10)), ("XFD1048576", (16383, 1048575, 16383, 1048575))]
# three tables, each name contained in the next one: a rename must touch the ranges of that table only
NR_RENAME_SETS = [("Data", "Data 2024", "All Data 2024 x"), ("0", "10", "a.10.b"), ("été", "Année été 2024", "l'été.$1"),
                  ("S", "S.S", "S S")]


def _check_named_range(res, argvals):
    import io
    from odfdo import Document, Element, Table
    from odfdo.table import NamedRange
    mode = argvals["mode"]
    res.checked = 1
    if mode == "roundtrip":
        tn, (area, exp) = argvals["table_name"], argvals["area"]
        nr = NamedRange("nr_1", area, tn)
        if (nr.table_name, nr.crange) != (tn, exp):
            _report(res, "ensures:nr-constructed", f"NamedRange('nr_1', {area!r}, {tn!r}) exposes ({nr.table_name!r}, {nr.crange!r})")
        back = Element.from_tag(nr.serialize())
        if (back.table_name, back.crange, back.start, back.end) != (tn, exp, exp[:2], exp[2:]):
            _report(res, "ensures:nr-reparse", f"NamedRange('nr_1', {area!r}, {tn!r}) written as "
                    f"{nr.get_attribute_string('table:cell-range-address')!r} reads back as table {back.table_name!r} area "
                    f"{back.crange!r}")
        # through a document: set on the table, read from the body, save, reopen, read
        doc = Document("spreadsheet")
        doc.body.clear()
        t = Table(tn, width=3, height=3)
        doc.body.append(t)
        t.set_named_range("nr_1", area)
        buf = io.BytesIO()
        doc.save(buf)
        for tag, d in (("live", doc), ("reopened", Document(io.BytesIO(buf.getvalue())))):
            got = d.body.get_named_range("nr_1")
            if got is None or (got.table_name, got.crange) != (tn, exp):
                _report(res, "ensures:nr-document", f"{tag}: table {tn!r} set_named_range('nr_1', {area!r}) reads back as "
                        f"{None if got is None else (got.table_name, got.crange)!r}")
            else:
                own = d.body.get_table(name=tn).get_named_ranges(table_name=tn)
                if [n.name for n in own] != ["nr_1"]:
                    _report(res, "ensures:nr-by-table", f"{tag}: get_named_ranges(table_name={tn!r}) lists {[n.name for n in own]!r}")
    elif mode == "rename":
        names, which, new = argvals["names"], argvals["which"], argvals["new"]
        doc = Document("spreadsheet")
        doc.body.clear()
        tables = []
        for n in names:
            t = Table(n, width=2, height=2)
            doc.body.append(t)
            tables.append(t)
        for i, t in enumerate(tables):
            t.set_named_range(f"nr_{i}_cell", (i, i))
            t.set_named_range(f"nr_{i}_area", (0, 0, 1, i + 1))
        expected = {}
        for i, n in enumerate(names):
            owner = new if i == which else n
            expected[f"nr_{i}_cell"] = (owner, (i, i, i, i))
            expected[f"nr_{i}_area"] = (owner, (0, 0, 1, i + 1))
        # get_named_ranges(table_name=<str>) selects by equality of the table name
        for i, t in enumerate(tables):
            got = sorted(n.name for n in t.get_named_ranges(table_name=names[i]))
            if got != [f"nr_{i}_area", f"nr_{i}_cell"]:
                _report(res, "ensures:nr-by-table", f"tables {names!r}: get_named_ranges(table_name={names[i]!r}) lists {got!r}")
        tables[which].name = new
        buf = io.BytesIO()
        doc.save(buf)
        for tag, d in (("live", doc), ("reopened", Document(io.BytesIO(buf.getvalue())))):
            got = {n.name: (n.table_name, n.crange) for n in d.body.get_named_ranges()}
            if got != expected:
                bad = {k: (got.get(k), expected[k]) for k in expected if got.get(k) != expected[k]}
                _report(res, "ensures:nr-rename", f"{tag}: tables {names!r}, table {names[which]!r} renamed to {new!r}: "
                        f"(read, expected) {bad!r}")
    else:
        raise KeyError(mode)


def _gen_named_range(con, sigcase, count, seed):
    _new_pass(con)
    for tn in NR_TABLE_NAMES:
        for area in NR_AREAS:
            yield {"mode": "roundtrip", "table_name": tn, "area": area}
    for names in NR_RENAME_SETS:
        for which in range(3):
            for new in ("Renamed", names[which] + " 2", "new.name's $x"):
                yield {"mode": "rename", "names": names, "which": which, "new": new}


@_guarded
def _call_named_range(con, fn, argvals, labels):
    res = NativeResult()
    _check_named_range(res, argvals)
    return res


contract(
    "odfdo.table:NamedRange[addresses]",
    sig=dict(mode=Str),
    ensures=[Clause(lab, {"C19"}, lambda a, r, p: True)
             for lab in ("nr-constructed", "nr-reparse", "nr-document", "nr-by-table", "nr-rename", "no-crash")],
    gen=_gen_named_range, call_native=_call_named_range,
    bounded=dict(
        scope="19 accepted table names (spaces, dots, dollars, inner apostrophes, non-ASCII, digits only, names contained "
              "in one another) x 6 areas (cell / area as string and tuples, three-letter columns, last cell XFD1048576): "
              "constructor, serialise + reparse, set on a table of a spreadsheet document, read live and after "
              "save/reopen; 4 sets of three tables whose names contain one another x each table renamed to 3 new names: "
              "exactly the ranges of the renamed table follow, live and after save/reopen",
        reason="the address is built and parsed with str.replace/split/partition chains over two attributes and a document "
               "body lookup (outside the executor's subset)"),
)


# ===================================================================== C10 (table part): clones
CLONE_OPS = [("set_value", 0, 0, 301), ("set_value", BEY, BEY, 302), ("insert_row", 0, "R3", 310, 2), ("delete_row", 0),
             ("append_cell", 0, 303, 2), ("insert_column", 0, "cq", 2), ("delete_column", 0), ("append_row", "R1", 320, 1),
             ("set_cell", LAST, LAST, 304, 1), ("insert_cell", 0, 0, 305, 1)]


def _snapshot(obj):
    """what an observer sees of a Table / Row / Cell / Column: XML, maps, coordinates, answers"""
    n = type(obj).__name__
    snap = {"xml": obj.serialize()}
    if n == "Table":
        snap["maps"] = (list(obj._tmap), list(obj._cmap))
        snap["size"] = obj.size
        snap["values"] = obj.get_values()
        snap["row widths"] = [obj.get_row(y, clone=False).width for y in range(obj.height)]
        snap["row values"] = [obj.get_row_values(y) for y in range(obj.height)]
    elif n == "Row":
        snap["maps"] = list(obj._rmap)
        snap["y"] = obj.y
        snap["width"] = obj.width
        snap["values"] = obj.get_values()
        snap["value(0..w)"] = [obj.get_value(x) for x in range(obj.width + 1)]
    elif n == "Cell":
        snap["xy"] = (obj.x, obj.y)
        snap["value"] = obj.get_value()
    else:
        snap["x"] = obj.x
        snap["style"] = obj.style
    return snap


def _safe_snapshot(obj):
    try:
        return _snapshot(obj)
    except Exception as e:  # noqa
        return {"xml": f"reading it raised {type(e).__name__}: {e}"}


def _snapdiff(a, b):
    for k in a:
        if a[k] != b.get(k):
            return f"{k}: {a[k]!r} != {b.get(k)!r}"
    return None


def _row_edits():
    from odfdo import Cell
    return [("append_cell(Cell(5, repeated=2))", lambda r: r.append_cell(Cell(5, repeated=2))),
            ("set_cell(0, Cell(6))", lambda r: r.set_cell(0, Cell(6))),
            ("insert_cell(0, Cell(7))", lambda r: r.insert_cell(0, Cell(7))),
            ("delete_cell(0)", lambda r: r.delete_cell(0)),
            ("set_value(width + 2, 8)", lambda r: r.set_value(r.width + 2, 8)),
            ("set_values([1, 2], start=1)", lambda r: r.set_values([1, 2], start=1)),
            ("repeated = 3", lambda r: setattr(r, "repeated", 3)),
            ("clear()", lambda r: r.clear())]


def _cell_edits():
    return [("set_value(55)", lambda c: c.set_value(55)), ("repeated = 4", lambda c: setattr(c, "repeated", 4)),
            ("style = 'zz'", lambda c: setattr(c, "style", "zz")), ("clear()", lambda c: c.clear())]


def _col_edits():
    return [("style = 'zz'", lambda c: setattr(c, "style", "zz")), ("repeated = 4", lambda c: setattr(c, "repeated", 4))]


def _pair_check(res, what, where, make_pair, edits):
    """make_pair() -> (original, clone) fresh each time; equal at birth; each edit on either leaves the other as it was"""
    orig, cl = make_pair()
    d = _snapdiff(_safe_snapshot(orig), _safe_snapshot(cl))
    res.checked += 2
    if d:
        _report(res, f"ensures:equal-{what}", f"{where}: clone differs at birth: {d}")
        return
    for ename, edit in edits:
        for side in ("clone", "original"):
            orig, cl = make_pair()
            still, moved = (orig, cl) if side == "clone" else (cl, orig)
            before = _safe_snapshot(still)
            try:
                edit(moved)
            except Exception as e:  # noqa
                res.outcome = (res.outcome or "") + f" [{ename} on the {side} raised {type(e).__name__}]"
                continue
            d = _snapdiff(before, _safe_snapshot(still))
            if d:
                other = "original" if side == "clone" else "clone"
                _report(res, f"ensures:indep-{what}", f"{where}: {ename} on the {side} changed the {other}: {d}")
                return


@_guarded
def _call_clone(con, fn, argvals, labels):
    res = NativeResult()
    init, history, what = argvals["init"], argvals["history"], argvals["what"]
    rt = reach(init, history)
    if rt is None:
        res.in_domain = False
        return res
    t, g = rt
    where = f"{init} {list(history)}"
    s0 = t.serialize()
    if what == "Table.clone":
        snap0 = _snapshot(t)
        c = t.clone
        res.checked += 1
        d = _snapdiff(snap0, _snapshot(t))
        if d:
            _report(res, "ensures:equal-Table.clone", f"{where}: cloning modified the original: {d}")
            return res

        def pair():
            tt, _g = reach(init, history)
            return tt, tt.clone

        edits = [(repr(op), (lambda tb, op=op: apply_real(tb, resolve(op, g)))) for op in CLONE_OPS]
        _pair_check(res, what, where, pair, edits)
        # the clone obeys the same reference grid under further operations
        for op in CLONE_OPS:
            tt, gg = reach(init, history)
            c = tt.clone
            cop = resolve(op, gg)
            cls = input_class(c, cop)
            if cls.replace("-cached", ""):
                continue      # classes with a listed defect are the business of the history contracts
            try:
                apply_real(c, cop)
                apply_model(gg, cop)
                bad = check_state(c, gg, light=True)
            except Exception as e:  # noqa
                bad = {"grid": f"raised {type(e).__name__}: {e}"}
            res.checked += 1
            if bad:
                _report(res, "ensures:equal-Table.clone", f"{where}: the clone does not behave like the original "
                        f"under {cop}: {bad}")
                break
    elif what == "Row.clone":
        for y in range(g.H):
            for live in (True, False):
                def pair(y=y, live=live):
                    tt, _g = reach(init, history)
                    r = tt.get_row(y, clone=not live)
                    if not live:
                        r.repeated = None
                    return r, r.clone
                edits = _row_edits() if not live else [e for e in _row_edits() if not e[0].startswith("repeated")]
                _pair_check(res, what, f"{where} row {y} ({'live' if live else 'copy'})", pair, edits)
        if t.serialize() != s0:
            _report(res, "ensures:indep-Row.clone", f"{where}: the table changed")
    elif what == "Cell.clone":
        for y in range(g.H):
            for x in range(len(g.rows[y]) + 1):
                def pair(x=x, y=y):
                    c = t.get_cell((x, y))
                    return c, c.clone
                _pair_check(res, what, f"{where} cell {(x, y)}", pair, _cell_edits())
        if t.serialize() != s0:
            _report(res, "ensures:indep-Cell.clone", f"{where}: the table changed")
    elif what == "Column.clone":
        for x in range(g.W + 1):
            def pair(x=x):
                c = t.get_column(x)
                return c, c.clone
            _pair_check(res, what, f"{where} column {x}", pair, _col_edits())
        if t.serialize() != s0:
            _report(res, "ensures:indep-Column.clone", f"{where}: the table changed")
    res.outcome = (res.outcome or "") + f" {what} on {where}"
    return res


def _gen_clone(con, sigcase, count, seed):
    _new_pass(con)
    thorough = count > 200
    keys = reached_keys()
    if thorough:
        keys = reached_keys(QUICK_INITS + [f"rnd-{seed * 1000 + i}" for i in range(10)],
                            REACH_OPS + [(o,) for o in REDUCED[::3]])
    for init, h in keys:
        for what in ("Table.clone", "Row.clone", "Cell.clone", "Column.clone"):
            yield {"init": init, "history": h, "what": what}


contract(
    "odfdo.table:Table[clone]",
    sig=dict(init=Str, history=Opaque(tuple), what=Str),
    ensures=[Clause(f"{c}-{w}", {"C10"}, lambda a, r, p: True)
             for w in ("Table.clone", "Row.clone", "Cell.clone", "Column.clone") for c in ("equal", "indep")]
            + [Clause("no-crash", {"C10"}, lambda a, r, p: True)],
    gen=_gen_clone, call_native=_call_clone,
    bounded=dict(
        scope="clones of the table, of every row (the live row and a get_row copy), of every cell (one beyond each row "
              "end too) and of every column of 7 initial tables each also after one of 11 operations (states passing "
              "their own checks): serialisation, position maps, coordinates and answers equal at birth; then each of "
              "10 table operations / 8 row edits / 4 cell edits / 2 column edits applied to the clone and (on a new "
              "pair) to the original leaves the other one's serialisation, maps and answers unchanged; the table clone "
              "also obeys the reference grid under one further operation; thorough: 10 + 10 random initial tables x 20 operations",
        reason="independence for all later histories follows from separation of the reachable heaps (DESIGN C10); this "
               "is the bounded stand-in over one further operation"),
)


# ===================================================================== C17: whole-table transformations
def _span_xml():
    """4x4 table with one existing span: origin (1,1), 2 columns x 2 rows"""
    def c(v):
        return _cell_xml(v)
    rows = [
        "".join(c(v) for v in (1, 2, 3, 4)),
        c(5) + ('<table:table-cell table:number-columns-spanned="2" table:number-rows-spanned="2" '
                'office:value-type="float" office:value="6"><text:p>6</text:p></table:table-cell>')
        + _cell_xml(None, tag="covered-table-cell") + c(8),
        c(9) + _cell_xml(None, 2, tag="covered-table-cell") + c(12),
        _cell_xml(13, 4),
    ]
    return ('<table:table table:name="t"><table:table-column table:number-columns-repeated="4"/>'
            + "".join(f"<table:table-row>{r}</table:table-row>" for r in rows) + "</table:table>")


T_SHAPES = {
    # values from {None, int, "", styled empty}; trailing empty cells, trailing empty rows (a run of 2), a styled empty row
    "s-trailing": ([("ca", 2), (None, 3)],
                   [(1, [(1, 1), (None, 1), (None, 2, "ce1"), (None, 1)]),
                    (1, [(None, 1), (2, 1), ("", 1), (None, 2)]),
                    (2, [(None, 5)]),
                    (1, [(None, 1, "ce1"), (None, 4)])]),
    # the last row run is not empty and repeated
    "s-lastrun": ([(None, 2)], [(1, [(1, 1), (2, 1)]), (3, [(3, 2)])]),
    # every row narrower than the declared columns, same width
    "s-narrow": ([(None, 3)], [(2, [(1, 1), (2, 1)])]),
    # rectangular, run-length encoded both ways, trailing empties
    "s-rect": ([(None, 4)], [(1, [(1, 2), (None, 2)]), (2, [(None, 1), (5, 1), (None, 2)]), (1, [(None, 4)])]),
    # a zero and an empty string at the right end
    "s-zero": ([(None, 3)], [(1, [(1, 1), (0, 1), ("", 1)])]),
    # three column runs, only the first column populated
    "s-cols": ([("ca", 2), ("cb", 1), (None, 2)], [(1, [(1, 1), (None, 4)]), (1, [(None, 5)])]),
}
XML_SHAPES.update(T_SHAPES)
T_INITS = ["empty", "new-2x2", "x-rowrun", "x-ragged", "x-cellruns", "x-plain", "s-trailing", "s-lastrun", "s-narrow",
           "s-rect", "s-zero", "s-cols", "s-span", "ods-Example3"]
T_PREFIXES = [None, "transpose", "rstrip", "optimize_width", "set_span"]
T_LAWS = ["transpose", "rstrip", "rstrip-aggressive", "optimize_width", "span", "span-overlap"]


def build_t(key):
    from odfdo import Element
    if key == "s-span":
        t = Element.from_tag(_span_xml())
        return t, Grid.from_raw(Raw(t))
    return build_init(key)


def _styles(raw):
    return [[c.get(STYLE_ATTR) for c in r] for r in raw.rows]


def _is_spanned_node(c):
    return c.tag == COVERED_TAG or c.get(COLSPAN) is not None or c.get(ROWSPAN) is not None


def _empty_value(v):
    return v is None or v == ""


def _t_class(raw):
    if raw.H == 0:
        return "-norows"
    ws = set(raw.widths())
    if len(ws) > 1:
        return "-ragged"
    if ws and ws != {raw.W}:
        return "-narrow"
    return ""


def _apply_prefix(t, prefix):
    if prefix == "transpose":
        t.transpose()
    elif prefix == "rstrip":
        t.rstrip()
    elif prefix == "optimize_width":
        t.optimize_width()
    elif prefix == "set_span":
        t.set_span((0, 0, 1, 1))


def _law_transpose(res, t, where):
    p0 = Raw(t)
    cls = _t_class(p0)
    m0 = p0.matrix()
    w0 = max([p0.W] + p0.widths())
    m0 = [_pad(r, w0) for r in m0]
    res.checked += 3
    try:
        t.transpose()
    except Exception as e:  # noqa
        _report(res, f"ensures:transpose-once{cls}", f"{where}: transpose() raised {type(e).__name__}: {e}")
        _report(res, f"ensures:transpose-twice{cls}", f"{where}: transpose() raised {type(e).__name__}: {e}")
        return
    if p0.H and w0:
        exp = [[m0[y][x] for y in range(p0.H)] for x in range(w0)]
        if t.get_values() != exp or t.size != (p0.H, w0):
            _report(res, f"ensures:transpose-once{cls}", f"{where}: matrix {m0!r} transposed into {t.get_values()!r} "
                    f"size {t.size}, expected {exp!r}")
    bad = check_state(t, None, ("fresh", "xml"), light=True)
    if bad:
        _report(res, f"ensures:coherent-after-transpose{cls}", f"{where}: {bad}")
        return
    try:
        t.transpose()
    except Exception as e:  # noqa
        _report(res, f"ensures:transpose-twice{cls}", f"{where}: second transpose() raised {type(e).__name__}: {e}")
        return
    got = t.get_values()
    if got != m0 or t.size != (w0, p0.H):
        _report(res, f"ensures:transpose-twice{cls}", f"{where}: matrix {m0!r} size {(w0, p0.H)} came back as {got!r} "
                f"size {t.size}")


def _law_strip(res, t, where, method, aggressive):
    """rstrip / optimize_width: removes only empty trailing rows and cells, idempotent, non-empty values stay"""
    p0 = Raw(t)
    v0, s0 = p0.values(), _styles(p0)
    cls = "-norows" if p0.H == 0 else ""
    name = method + ("-aggressive" if aggressive and method == "rstrip" else "")
    res.checked += 4
    call = (lambda: t.rstrip(aggressive=aggressive)) if method == "rstrip" else t.optimize_width
    try:
        call()
    except Exception as e:  # noqa
        _report(res, f"ensures:{name}-keeps-values{cls}", f"{where}: {method}() raised {type(e).__name__}: {e}")
        return
    p1 = Raw(t)
    v1 = p1.values()
    # every non-empty value keeps its coordinates (live read and raw XML)
    for y, row in enumerate(v0):
        for x, v in enumerate(row):
            if not _empty_value(v):
                got = t.get_value((x, y))
                rawv = v1[y][x] if y < len(v1) and x < len(v1[y]) else None
                if got != v or rawv != v:
                    _report(res, f"ensures:{name}-keeps-values{cls}", f"{where}: value {v!r} at {(x, y)} reads {got!r} "
                            f"(XML {rawv!r}) after {method}(); before {v0!r}, after {v1!r}")
                    return
    # nothing but trailing empties was removed, nothing was added or moved
    if p1.H > p0.H or p1.W > p0.W:
        _report(res, f"ensures:{name}-only-empty{cls}", f"{where}: the table grew from {(p0.W, p0.H)} to {(p1.W, p1.H)}")
        return
    if p1.cols != p0.cols[:p1.W]:
        _report(res, f"ensures:{name}-only-empty{cls}", f"{where}: the remaining column declarations changed from "
                f"{p0.cols[:p1.W]!r} to {p1.cols!r}")
        return
    for y, row in enumerate(v0):
        new = v1[y] if y < len(v1) else []
        if len(new) > len(row) or new != row[:len(new)]:
            _report(res, f"ensures:{name}-only-empty{cls}", f"{where}: row {y} {row!r} became {new!r}")
            return
        for x in range(len(new), len(row)):
            node = p0.rows[y][x]
            styled = s0[y][x] is not None and not aggressive and method == "rstrip"
            if not _empty_value(row[x]) or styled or _is_spanned_node(node):
                _report(res, f"ensures:{name}-only-empty{cls}", f"{where}: cell {(x, y)} = {row[x]!r} (style {s0[y][x]!r}) "
                        f"was removed and is not empty")
                return
    bad = check_state(t, None, ("fresh", "xml"), light=True)
    if bad:
        _report(res, f"ensures:coherent-after-{name}{cls}", f"{where}: {bad}")
        return
    ser = t.serialize()
    try:
        call()
    except Exception as e:  # noqa
        _report(res, f"ensures:{name}-idempotent{cls}", f"{where}: second {method}() raised {type(e).__name__}: {e}")
        return
    if t.serialize() != ser:
        _report(res, f"ensures:{name}-idempotent{cls}", f"{where}: a second {method}() changed the table again: "
                f"{Raw(t).values()!r} after {v1!r}")


def _covered(raw):
    return {(x, y) for y, r in enumerate(raw.rows) for x, c in enumerate(r) if c.tag == COVERED_TAG}


def _origins(raw):
    return {(x, y): (c.get(COLSPAN), c.get(ROWSPAN)) for y, r in enumerate(raw.rows) for x, c in enumerate(r)
            if c.get(COLSPAN) is not None or c.get(ROWSPAN) is not None}


def _law_span(res, t, where, areas, only_overlap=False):
    from odfdo import Cell, Element
    xml0 = t.serialize()
    empty = payload(lx(Cell()), "cells")
    for area in areas:
        t = Element.from_tag(xml0)
        p0 = Raw(t)
        x, y, z, tt = area
        cells = [(xx, yy) for yy in range(y, tt + 1) for xx in range(x, z + 1)]
        overlap = any(yy < p0.H and xx < len(p0.rows[yy]) and _is_spanned_node(p0.rows[yy][xx]) for xx, yy in cells)
        if only_overlap and not overlap:
            continue
        w = f"{where} set_span({area})"
        res.checked += 4
        try:
            r = t.set_span(area)
        except Exception as e:  # noqa
            _report(res, "ensures:span-covers-area", f"{w} raised {type(e).__name__}: {e}")
            return
        if len(cells) == 1 or overlap:
            if r is not False or Raw(t).payloads() != p0.payloads() or (t.width, t.height) != (p0.W, p0.H):
                lab = "ensures:span-refuses-overlap" if overlap else "ensures:span-single-cell"
                _report(res, lab, f"{w} returned {r!r}; table {'changed' if t.serialize() != xml0 else 'unchanged'}")
                return
            continue
        if r is not True:
            _report(res, "ensures:span-covers-area", f"{w} returned {r!r} although no cell of the area is spanned")
            return
        p1 = Raw(t)
        new_cov = _covered(p1) - _covered(p0)
        new_org = {k: v for k, v in _origins(p1).items() if k not in _origins(p0)}
        if new_cov != set(cells[1:]) or new_org != {(x, y): (str(z - x + 1), str(tt - y + 1))}:
            _report(res, "ensures:span-covers-area", f"{w}: covered cells {sorted(new_cov)}, origins {new_org}; expected "
                    f"{cells[1:]} and {{{(x, y)}: {(z - x + 1, tt - y + 1)}}}")
            return
        v0, v1 = p0.values(), p1.values()
        for yy in range(max(len(v0), len(v1))):
            a = v0[yy] if yy < len(v0) else []
            b = v1[yy] if yy < len(v1) else []
            n = max(len(a), len(b))
            if _pad(a, n) != _pad(b, n):
                _report(res, "ensures:span-keeps-values", f"{w}: row {yy} {a!r} became {b!r}")
                return
        bad = check_state(t, None, ("fresh", "xml"), light=True)
        if bad:
            _report(res, "ensures:coherent-after-set_span", f"{w}: {bad}")
            return
        try:
            r2 = t.del_span((x, y))
        except Exception as e:  # noqa
            _report(res, "ensures:span-del-restores", f"{w} then del_span({(x, y)}) raised {type(e).__name__}: {e}")
            return
        p2 = Raw(t)
        pl0, pl2 = p0.payloads(), p2.payloads()
        ok = r2 is True and len(pl2) >= len(pl0)
        if ok:
            for yy in range(len(pl2)):
                a = pl0[yy] if yy < len(pl0) else []
                b = pl2[yy]
                if b[:len(a)] != a or any(c != empty for c in b[len(a):]):
                    ok = False
                    break
        if not ok:
            _report(res, "ensures:span-del-restores", f"{w} then del_span({(x, y)}) -> {r2!r}: values {p0.values()!r} "
                    f"became {p2.values()!r}, covered {sorted(_covered(p2))}, origins {_origins(p2)}")
            return
        bad = check_state(t, None, ("fresh", "xml"), light=True)
        if bad:
            _report(res, "ensures:coherent-after-del_span", f"{w} then del_span: {bad}")
            return


def _areas(n):
    return [(x, y, z, tt) for x in range(n) for y in range(n) for z in range(x, n) for tt in range(y, n)]


@_guarded
def _call_transform(con, fn, argvals, labels):
    res = NativeResult()
    init, prefix, law = argvals["init"], argvals["prefix"], argvals["law"]
    t, _g = build_t(init)
    if init not in _INIT_OK:
        _INIT_OK[init] = check_state(*build_t(init))
    if _INIT_OK[init]:
        res.in_domain = False
        return res
    where = f"{init}" + (f" after {prefix}" if prefix else "")
    if prefix:
        try:
            _apply_prefix(t, prefix)
        except Exception:  # noqa
            res.in_domain = False       # the prefix transformation is judged by its own law
            return res
        if check_state(t, None, ("fresh", "xml"), light=True):
            res.in_domain = False
            return res
    res.outcome = f"{law} on {where}"
    if law == "transpose":
        _law_transpose(res, t, where)
    elif law == "rstrip":
        _law_strip(res, t, where, "rstrip", False)
    elif law == "rstrip-aggressive":
        _law_strip(res, t, where, "rstrip", True)
    elif law == "optimize_width":
        _law_strip(res, t, where, "optimize_width", True)
    elif law == "span":
        _law_span(res, t, where, _areas(4) if not prefix else _areas(3))
    elif law == "span-overlap":
        _law_span(res, t, where, _areas(4), only_overlap=True)
    return res


def _gen_transform(con, sigcase, count, seed):
    _new_pass(con)
    thorough = count > 200
    inits = list(T_INITS)
    if thorough:
        inits += [k for k in QUICK_INITS if k not in inits] + [f"rnd-{seed * 1000 + i}" for i in range(40)]
    for init in inits:
        for prefix in T_PREFIXES:
            for law in T_LAWS:
                if law == "span-overlap" and init != "s-span" and prefix != "set_span":
                    continue
                yield {"init": init, "prefix": prefix, "law": law}


_T_CLAUSES = []
for _m in ("rstrip", "rstrip-aggressive", "optimize_width"):
    for _c in ("keeps-values", "only-empty", "idempotent"):
        for _cl in ("", "-norows"):
            _T_CLAUSES.append(Clause(f"{_m}-{_c}{_cl}", {"C17"}, lambda a, r, p: True))
    for _cl in ("", "-norows"):
        _T_CLAUSES.append(Clause(f"coherent-after-{_m}{_cl}", {"C17", "C02", "C07"}, lambda a, r, p: True))
for _cl in ("", "-ragged", "-narrow", "-norows"):
    _T_CLAUSES.append(Clause(f"transpose-once{_cl}", {"C17"}, lambda a, r, p: True))
    _T_CLAUSES.append(Clause(f"transpose-twice{_cl}", {"C17"}, lambda a, r, p: True))
    _T_CLAUSES.append(Clause(f"coherent-after-transpose{_cl}", {"C17", "C02", "C07"}, lambda a, r, p: True))
for _c in ("span-covers-area", "span-keeps-values", "span-del-restores", "span-refuses-overlap", "span-single-cell"):
    _T_CLAUSES.append(Clause(_c, {"C17"}, lambda a, r, p: True))
for _c in ("coherent-after-set_span", "coherent-after-del_span"):
    _T_CLAUSES.append(Clause(_c, {"C17", "C02", "C07"}, lambda a, r, p: True))
_T_CLAUSES.append(Clause("no-crash", {"C17"}, lambda a, r, p: True))

contract(
    "odfdo.table:Table[transform]",
    sig=dict(init=Str, prefix=Opaque(object), law=Str),
    ensures=_T_CLAUSES,
    gen=_gen_transform, call_native=_call_transform,
    bounded=dict(
        scope="laws {transpose once = matrix transposed and twice = identity (size and values); rstrip, "
              "rstrip(aggressive), optimize_width: non-empty values keep their coordinates, only empty trailing cells / "
              "rows removed (styled empties kept by the plain rstrip, remaining column declarations unchanged), idempotent; set_span(area) for all 100 areas "
              "inside 4x4: refused iff a cell of the area is already spanned or the area is one cell, else covered cells = "
              "area minus origin, origin carries the two span counts, values unchanged, del_span restores every cell} on "
              "14 tables (empty, Table(2,2), 10 raw-XML tables: run-length encoded, ragged, narrower than their columns, "
              "trailing empty / styled cells and rows, values None / int / 0 / '' / styled empty, a repeated non-empty "
              "last row, one with an existing 2x2 span, simple_table.ods Example3), each law also after one of {transpose, "
              "rstrip, optimize_width, set_span((0,0,1,1))} (compositions of length 2; 36 areas then); the result is "
              "re-read with raw lxml, a fresh parse and the XML structure rules; thorough: plus 44 more tables",
        reason="transpose is bounded in DESIGN C17 (zip_longest over expanded rows); the strip / span laws are "
               "stated here over whole tables as the bounded stand-in of the view-level lemmas"),
)


# ===================================================================== C17 (CSV): export then import keeps the values
CSV_POOLS = {
    "ints": [0, 1, -7, 42, 1000000],
    "quarters": [0.5, -2.25, 3.75, 10.0],
    "words": ["a", "b c", "Hello", "été", "日本", "x_y"],
    "tricky": ["d,e", 'say "hi"', "a;b", "tab\there", "it's", "1 apple"],
    "holes": [None, 1, "w", None],
}


def _csv_norm(v):
    """what a CSV cell can carry: numbers by value, text stripped, nothing = ''"""
    from decimal import Decimal
    if v is None:
        return ""
    if isinstance(v, bool):
        return v
    if isinstance(v, (int, float, Decimal)):
        return Decimal(str(v)).normalize()
    if isinstance(v, str):
        return v.strip()
    return v


def _csv_norm_matrix(rows):
    out = []
    for r in rows:
        r = [_csv_norm(v) for v in r]
        while r and r[-1] == "":
            r.pop()
        out.append(r)
    return out


def _gen_csv(con, sigcase, count, seed):
    _new_pass(con)
    rnd = random.Random(seed)
    thorough = count > 200
    for pool in CSV_POOLS:
        for W in (2, 3):
            for H in (1, 2, 3):
                for k in range(6 if thorough else 2):
                    vals = CSV_POOLS[pool] if pool != "mixed" else None
                    rows = [[rnd.choice(vals) for _ in range(W)] for _ in range(H)]
                    for mode in ("explicit", "sniffed"):
                        yield {"rows": rows, "mode": mode, "pool": pool}
    allv = [v for p in ("ints", "quarters", "words", "tricky") for v in CSV_POOLS[p]] + [None]
    for k in range(60 if thorough else 12):
        W, H = rnd.randint(2, 4), rnd.randint(1, 4)
        rows = [[rnd.choice(allv) for _ in range(W)] for _ in range(H)]
        for mode in ("explicit", "sniffed"):
            yield {"rows": rows, "mode": mode, "pool": "mixed"}


@_guarded
def _call_csv(con, fn, argvals, labels):
    import csv
    from io import StringIO
    from odfdo import Table
    from odfdo.table import import_from_csv
    res = NativeResult()
    res.checked = 1
    rows, mode = argvals["rows"], argvals["mode"]
    exp = _csv_norm_matrix(rows)
    if not any(exp):
        res.in_domain = False          # an all-empty table has no CSV content to sniff
        return res
    t = Table("t")
    t.set_values(rows)
    text = t.to_csv()
    # the text itself, read by the csv module with the dialect it was written in
    ind = _csv_norm_matrix([[c for c in line] for line in csv.reader(StringIO(text, newline=""), dialect="excel")])
    want_text = [[str(v) if not isinstance(v, str) else v for v in r] for r in exp]
    got_text = [[c for c in r] for r in ind]
    from decimal import Decimal

    def same_cell(a, b):
        if isinstance(a, Decimal):
            try:
                return Decimal(b).normalize() == a
            except Exception:  # noqa
                return False
        return str(a) == b
    if len(got_text) != len(exp) or any(len(a) != len(b) or not all(same_cell(x, y) for x, y in zip(a, b))
                                        for a, b in zip(exp, got_text)):
        _report(res, "ensures:csv-export", f"to_csv of {rows!r} reads (csv module, excel dialect) as {got_text!r}")
    kw = dict(delimiter=",", quotechar='"') if mode == "explicit" else {}
    if mode == "sniffed":
        # input class of the known finding: the dialect guessed by csv.Sniffer is not the one the text was written in
        try:
            guessed = csv.Sniffer().sniff("".join(text.splitlines(True)[:100])).delimiter
        except csv.Error as e:
            guessed = f"<{e}>"
        if guessed != ",":
            _report(res, "ensures:csv-sniffed-delimiter", f"to_csv of {rows!r} is {text!r}; csv.Sniffer guesses the delimiter "
                    f"{guessed!r}, so import_from_csv does not read the table back")
            return res
    try:
        back = import_from_csv(StringIO(text), "t2", **kw)
    except csv.Error as e:
        if mode == "explicit":
            res.in_domain = False      # the sniffer refused the sample before the explicit dialect could apply
            res.outcome = f"sniffer: {e}"
            return res
        _report(res, "ensures:csv-roundtrip-sniffed", f"import_from_csv(to_csv of {rows!r}) raised {e!r}")
        return res
    got = _csv_norm_matrix(back.get_values())
    res.outcome = repr(got)[:200]
    if got != exp:
        _report(res, "ensures:csv-roundtrip" if mode == "explicit" else "ensures:csv-roundtrip-sniffed",
                f"{rows!r} -> {text!r} -> {back.get_values()!r}")
    return res


contract(
    "odfdo.table:Table.to_csv -> import_from_csv",
    sig=dict(rows=Opaque(list), mode=Str),
    ensures=[Clause(lab, {"C17"}, lambda a, r, p: True)
             for lab in ("csv-export", "csv-roundtrip", "csv-roundtrip-sniffed", "csv-sniffed-delimiter", "no-crash")],
    gen=_gen_csv, call_native=_call_csv,
    bounded=dict(
        scope="tables 2-4 columns x 1-4 rows over pools {ints, quarter floats, words (ASCII, accented, CJK), text with comma / "
              "double quote / semicolon / tab / apostrophe / leading digit, holes (None)} and mixtures; values compared as CSV "
              "can carry them (numbers by value, text stripped, None = empty, trailing empties dropped); modes: import with "
              "delimiter and quote character given, and import with the sniffed dialect; the exported text is also read "
              "with the csv module alone",
        reason="csv writer / reader / Sniffer are outside the executor; the sniffed mode depends on a heuristic"),
)


# ===================================================================== genuine defects of the pinned tree
# One entry per root cause.  `clause` is the primary failing label, `clauses` lists (fnmatch patterns) every label
# of this module that the defect accounts for on the unchanged tree, `history` the smallest failing history found,
# `witness` a stand-alone script setting REPRODUCED, `fix` whether a 1-5 line repair exists and where.
FINDINGS = [
    dict(
        property="C01", properties=["C01", "C02", "C07"],
        target="odfdo.element_cached:set_item_in_vault",
        calls=["odfdo.table:Table.set_row", "odfdo.table:Table.set_cell", "odfdo.row:Row.set_cell"],
        clause="ensures:grid-set_row-overlap",
        clauses=["ensures:*-set_row-overlap*", "ensures:*-set_cell-overlap*", "ensures:*-rset_cell-overlap*"],
        history="Table('t', width=1, height=2); set_row(0, Row(1, repeated=2))  |  "
                "row [2, 3x2]; Row.set_cell(0, Cell(9, repeated=2))",
        what_fails="setting an item that carries a repeat count k >= 2 reaching beyond the run it starts in: "
                   "Table(1,2).set_row(0, Row x2) leaves three XML rows while the table reports height 2 (live != fresh "
                   "parse, height != sum of repeats); row [2, 3, 3].set_cell(0, Cell(9) x2) gives [9, 9] instead of "
                   "[9, 9, 3]: the overlap branch deletes a following item when exactly one of its repetitions should "
                   "survive (`is_repeated > 1`), addresses the following item by raw child index + 1 through an XPath "
                   "that expects the odf index (wrong in a table, whose first children are columns), and patches the "
                   "map by erasing one whole entry per overlapped position",
        fix="no safe 1-5 line fix: three slips in element_cached.py:135-168 (`> 1` -> `>= 1` repairs the row case "
            "only); a repair walks the following items by odf index and rebuilds the map with make_cache_map (~8 lines)",
        witness="""from odfdo import Cell, Element, Row, Table
t = Table("t", width=1, height=2)
t.set_row(0, Row(1, repeated=2))
fresh = Element.from_tag(t.serialize())
r = Row()
r.append_cell(Cell(2))
r.append_cell(Cell(3, repeated=2))
r.set_cell(0, Cell(9, repeated=2))
REPRODUCED = (t.height, fresh.height) == (2, 3) and r.get_values() == [9, 9]
DETAIL = repr((t.height, fresh.height, r.get_values()))   # expected (2, 2, [9, 9, 3])
"""),
    dict(
        property="C01", properties=["C01", "C02", "C07"],
        target="odfdo.table:Table.append_cell",
        clause="ensures:grid-append_cell-rowrun",
        clauses=["ensures:*-append_cell-rowrun*"],
        history="Table('t'); append_row(Row(1, repeated=2)); append_cell(0, Cell(5))",
        what_fails="Table.append_cell(y) on a row stored inside a repeated run changes every repetition: the row copy "
                   "keeps number-rows-repeated and set_row(y, copy) writes the whole run again (when y is not the first "
                   "row of the run this is the overlap case above and the height goes wrong too); "
                   "[[None], [None]] -> [[None, 5], [None, 5]] instead of [[None, 5], [None, None]]",
        fix="1 line in table.py append_cell: `row.repeated = None` after `row = self._get_row2(y)` (as insert_cell does)",
        witness="""from odfdo import Cell, Row, Table
t = Table("t")
t.append_row(Row(1, repeated=2))
t.append_cell(0, Cell(5))
REPRODUCED = t.get_values() == [[None, 5], [None, 5]]
DETAIL = repr(t.get_values())   # expected [[None, 5], [None, None]]
"""),
    dict(
        property="C01", properties=["C01"],
        target="odfdo.table:Table.delete_cell",
        clause="ensures:grid-delete_cell-rowrun",
        clauses=["ensures:*-delete_cell-rowrun*"],
        history="table of one row run [1, 2] x2; delete_cell((0, 0))",
        what_fails="Table.delete_cell((x, y)) on a row stored inside a repeated run deletes the cell in every "
                   "repetition: it edits the live run node in place; [[1, 2], [1, 2]] -> [[2, None], [2, None]] instead "
                   "of [[2, None], [1, 2]]",
        fix="3-4 lines in table.py delete_cell: when `row.repeated` take `row = row.clone; row.repeated = None; "
            "row.delete_cell(x); self.set_row(y, row, clone=False)` (the pattern of set_cell)",
        witness="""from odfdo import Row, Table
t = Table("t")
r = Row()
r.set_values([1, 2])
r.repeated = 2
t.append_row(r)
before = t.get_values()
t.delete_cell((0, 0))
REPRODUCED = before == [[1, 2], [1, 2]] and t.get_values() == [[2, None], [2, None]]
DETAIL = repr(t.get_values())   # expected [[2, None], [1, 2]]
"""),
    dict(
        property="C01", properties=["C01"],
        target="odfdo.table:Table.delete_column",
        clause="ensures:grid-delete_column-ragged",
        clauses=["ensures:grid-delete_column-ragged"],
        history="Table('t'); set_values([[1, 2, 3], [7]]); delete_column(0)",
        what_fails="delete_column(x) does not shift the rows that are at least two cells narrower than the table although "
                   "they have a cell at x (`row.width >= width` tests against the new table width instead of x): "
                   "[[1, 2, 3], [7, None, None]] -> [[2, 3], [7, None]] instead of [[2, 3], [None, None]]",
        fix="1 line in table.py delete_column: `if row.width >= width:` -> `if row.width > x:`",
        witness="""from odfdo import Table
t = Table("t")
t.set_values([[1, 2, 3], [7]])
t.delete_column(0)
REPRODUCED = t.get_values() == [[2, 3], [7, None]]
DETAIL = repr(t.get_values())   # expected [[2, 3], [None, None]]
"""),
    dict(
        property="C02", properties=["C02", "C01"],
        target="odfdo.table:Table.insert_column",
        calls=["odfdo.table:Table.insert_column", "odfdo.table:Table.delete_column"],
        clause="ensures:fresh-insert_column-cached",
        clauses=["ensures:grid-insert_column*-cached", "ensures:fresh-insert_column*-cached",
                 "ensures:grid-delete_column*-cached", "ensures:fresh-delete_column*-cached"],
        history="Table('t'); set_values([[1, 2]]); get_value((0, 0)); insert_column(0)   (same with delete_column(0))",
        what_fails="insert_column / delete_column edit the rows through new wrappers (`_get_rows()`) and leave the row "
                   "wrappers cached in `_indexes['_tmap']` with their old cell maps and cached cells: after any read "
                   "that cached a row, live get_value((0, 0)) still answers 1 where a fresh parse of the table answers "
                   "None (with delete_column: 1 instead of 2; on some tables the next read raises 'Not a cell: None')",
        fix="1 line in each of table.py insert_column / delete_column: `self._indexes[\"_tmap\"] = {}` after the row loop",
        witness="""from odfdo import Element, Table
t = Table("t")
t.set_values([[1, 2]])
t.get_value((0, 0))
t.insert_column(0)
live = t.get_value((0, 0))
fresh = Element.from_tag(t.serialize()).get_value((0, 0))
t2 = Table("t")
t2.set_values([[1, 2]])
t2.get_value((0, 0))
t2.delete_column(0)
live2 = t2.get_value((0, 0))
fresh2 = Element.from_tag(t2.serialize()).get_value((0, 0))
REPRODUCED = (live, fresh, live2, fresh2) == (1, None, 1, 2)
DETAIL = repr((live, fresh, live2, fresh2))   # expected live == fresh: (None, None, 2, 2)
"""),
    dict(
        property="C02", properties=["C02", "C07"],
        target="odfdo.row:Row.repeated",
        clause="ensures:fresh-live_row_repeated",
        clauses=["ensures:fresh-live_row_repeated*", "ensures:xml-live_row_repeated*"],
        history="Table('t', width=1, height=2); get_row(0, clone=False).repeated = 3",
        what_fails="setting `repeated` on a live row (clone=False) recomputes the maps of a temporary Table wrapper "
                   "built by `Element.parent`, not of the table object the caller holds: the table keeps height 2 while "
                   "its XML (and a fresh parse) has 4 rows; height reported != sum of the row repeats",
        fix="no 1-5 line fix inside the setter: the row has no reference to the Table object that owns the maps "
            "(needs a back reference, or the Table API must offer the operation)",
        witness="""from odfdo import Element, Table
t = Table("t", width=1, height=2)
t.get_row(0, clone=False).repeated = 3
fresh = Element.from_tag(t.serialize())
REPRODUCED = (t.height, fresh.height) == (2, 4)
DETAIL = repr((t.height, fresh.height))   # expected equal
"""),
    dict(
        property="C08", properties=["C08"],
        target="odfdo.table:Table.traverse",
        calls=["odfdo.table:Table.traverse", "odfdo.table:Table.rows", "odfdo.table:Table.get_rows"],
        clause="ensures:detached-traverse",
        clauses=["ensures:detached-traverse", "ensures:detached-traverse-range", "ensures:detached-rows",
                 "ensures:detached-get_rows", "ensures:detached-get_rows-range"],
        history="Table('t', width=1, height=1); r = t.rows[0]; r.set_value(0, 5)",
        what_fails="Table.traverse (hence rows, get_rows) documents 'Copies are returned' but `_yield_odf_rows` yields the "
                   "live row wrapper for every row that is not repeated: writing into the returned row changes the table",
        fix="1 line in table.py _yield_odf_rows: `yield row.clone` for the unrepeated row (internal callers that rely on "
            "the live row, e.g. set_column_cells, already push the row back with set_row)",
        witness="""from odfdo import Table
t = Table("t", width=1, height=1)
before = t.serialize()
r = t.rows[0]
r.set_value(0, 5)
REPRODUCED = t.get_value((0, 0)) == 5 and t.serialize() != before
DETAIL = repr(t.get_values())   # expected [[None]]
"""),
    dict(
        property="C08", properties=["C08"],
        target="odfdo.table:Table.traverse_columns",
        calls=["odfdo.table:Table.traverse_columns", "odfdo.table:Table.get_columns"],
        clause="ensures:norepeat-traverse_columns-range",
        clauses=["ensures:norepeat-traverse_columns-range", "ensures:norepeat-get_columns-range"],
        history="Table('t', width=3, height=1); traverse_columns(start=2, end=2)",
        what_fails="traverse_columns(start, end) starting on the last position of a repeated column run returns a column "
                   "that still carries number-columns-repeated (3): `x += 1` is executed before the test "
                   "`x == start and start > 0` (Row.traverse has the right order)",
        fix="2 lines in table.py traverse_columns (second branch): move `x += 1` after the `if ... column.repeated = None`",
        witness="""from odfdo import Table
t = Table("t", width=3, height=1)
cols = list(t.traverse_columns(start=2, end=2))
REPRODUCED = [(c.x, c.repeated) for c in cols] == [(2, 3)]
DETAIL = repr([(c.x, c.repeated) for c in cols])   # expected [(2, None)]
"""),
    dict(
        property="C17", properties=["C17"],
        target="odfdo.table:Table.transpose",
        clause="ensures:transpose-twice-ragged",
        clauses=["ensures:transpose-once-ragged", "ensures:transpose-twice-ragged", "ensures:transpose-once-narrow",
                 "ensures:transpose-twice-narrow"],
        history="Table('t'); set_values([[1, 2], [3]]); transpose()   |   Table('t', 1, 1); append_column(); "
                "transpose(); transpose()",
        what_fails="transpose() takes the matrix from the physical cells of each row, not from the table width: with rows "
                   "of different widths zip_longest pads with None and extend_cells(None) raises AttributeError; with "
                   "rows all narrower than the declared columns the trailing empty columns are lost (size (2, 1) comes "
                   "back as (1, 1) after two transpositions)",
        fix="2-3 lines in table.py transpose: pad each `list(row.traverse())` with `Cell()` up to `self.width` before "
            "zip_longest (repairs both forms)",
        witness="""from odfdo import Table
t = Table("t")
t.set_values([[1, 2], [3]])
try:
    t.transpose()
    raised = None
except AttributeError as e:
    raised = e
t2 = Table("t", width=1, height=1)
t2.append_column()
size0 = t2.size
t2.transpose()
t2.transpose()
REPRODUCED = raised is not None and (size0, t2.size) == ((2, 1), (1, 1))
DETAIL = repr((raised, size0, t2.size))
"""),
    dict(
        property="C17", properties=["C17"],
        target="odfdo.table:Table.optimize_width",
        clause="ensures:optimize_width-keeps-values",
        clauses=["ensures:optimize_width-keeps-values"],
        history="Table('t'); append_row(row [3] repeated 3 times); optimize_width()",
        what_fails="optimize_width removes non-empty rows: `_optimize_width_trim_rows` drops the repeat count of the last "
                   "row whether or not it is empty, so a table ending with a repeated data row [[3], [3], [3]] becomes [[3]]",
        fix="1-2 lines in table.py _optimize_width_trim_rows: `if last_row.is_empty(aggressive=False): "
            "last_row._set_repeated(None)`",
        witness="""from odfdo import Row, Table
t = Table("t")
r = Row()
r.set_values([3])
r.repeated = 3
t.append_row(r)
before = t.get_values()
t.optimize_width()
REPRODUCED = before == [[3], [3], [3]] and t.get_values() == [[3]]
DETAIL = repr(t.get_values())   # expected [[3], [3], [3]]
"""),
    dict(
        property="C17", properties=["C17"],
        target="odfdo.table:Table.optimize_width",
        clause="ensures:optimize_width-keeps-values-norows",
        clauses=["ensures:optimize_width-keeps-values-norows"],
        history="Table('t'); optimize_width()",
        what_fails="optimize_width() on a table without rows raises ValueError (max() of an empty sequence in "
                   "_optimize_width_length) instead of leaving the table as it is",
        fix="1 line in table.py _optimize_width_length: `max((...), default=0)`",
        witness="""from odfdo import Table
try:
    Table("t").optimize_width()
    REPRODUCED = False
except ValueError:
    REPRODUCED = True
"""),
]

# Behaviours noticed while writing the oracles that are NOT counted as violations of the stated clauses:
#  * transpose() erases table:name and every other attribute of table:table (it calls self.clear());
#  * get_row / get_cell / get_column_cells copies keep the repeat count of the run they were read from (the API
#    documents keep_repeated for get_cell), so pushing such a copy back with set_row / set_cell rewrites the run;
#  * append_row(Row()) on an empty table declares one column for a row without cells;
#  * NamedRange accepts names starting with a digit ("1", "1A"), which the office suites refuse - outside the
#    rule stated for this module (letters, digits, underscore, not of the form letters+digits).
